"""Shared driver for the tensor properties (C04-C06, C08-C10, C19): interpret a list of
AurelCore quantity methods under every configuration they ask about, enforce the index
discipline, compare the declared type of the key, and compare the componentwise polynomials
with the reference formula of refs.py."""
from __future__ import annotations

import itertools

from . import refs as _refs
from .common import AnalysisError
from .refdsl import RefError, evaluate
from .tensor import (KEYTYPES, OPAQUE_KEYS, Arr, PathEnds, Unsupported, interpret_all_configs,
                     unify_var)
from .tpoly import P

CORE = "core.py"
TETRAD_OPTIONS = {"tetrad": ("quasi-Kinnersley", "other")}


def cfg_str(cfg):
    if not cfg:
        return "default"
    return ",".join(f"{k}={'Y' if v is True else 'N' if v is False else v}"
                    for k, v in sorted(cfg.items()))


def cofactor_inverse(key_src, n):
    """reference inverse of the symmetric matrix of atoms `key_src`: adjugate / determinant
    by cofactor (Leibniz) expansion -- independent of the closed forms in maths.py"""
    M = Arr.key(key_src)

    def det(rows, cols):
        if len(rows) == 1:
            return M.get((rows[0], cols[0]))
        tot = P()
        for j, c in enumerate(cols):
            sub = det(rows[1:], cols[:j] + cols[j + 1:])
            term = M.get((rows[0], c)) * sub
            tot = tot + (term if j % 2 == 0 else -term)
        return tot
    full = det(list(range(n)), list(range(n)))
    out = {}
    rdet = full.pow(-1)
    for i in range(n):
        for j in range(n):
            rows = [r for r in range(n) if r != j]
            cols = [c for c in range(n) if c != i]
            cof = det(rows, cols)
            if (i + j) % 2:
                cof = -cof
            p = cof * rdet
            if not p.is_zero():
                out[(i, j)] = p
    return full, Arr((n, n), None, out)


def python_refs(key, cfg):
    """references that are easier to state in python than in index notation"""
    if key == "gammaup3":
        return cofactor_inverse("gammadown3", 3)[1]
    if key == "gup4":
        return cofactor_inverse("gdown4", 4)[1]
    if key == "gammadet":
        return Arr.scalar(cofactor_inverse("gammadown3", 3)[0])
    if key == "gdet":
        if cfg.get("in:gdown4"):
            return Arr.scalar(cofactor_inverse("gdown4", 4)[0])
        return evaluate("gdet = -alpha**2*gammadet", "gdet")
    if key == "hdet":
        h = Arr.key("hdown4")
        M = {(i, j): h.get((i + 1, j + 1)) for i in range(3) for j in range(3)}
        d = (M[0, 0] * (M[1, 1] * M[2, 2] - M[1, 2] * M[2, 1])
             - M[0, 1] * (M[1, 0] * M[2, 2] - M[1, 2] * M[2, 0])
             + M[0, 2] * (M[1, 0] * M[2, 1] - M[1, 1] * M[2, 0]))
        return Arr.scalar(d)
    return None


def reference_for(key, cfg):
    r = python_refs(key, cfg)
    if r is not None:
        return r
    f = _refs.REF.get(key)
    if f is None:
        return None
    return evaluate(f(cfg), key)


def diff_summary(code, ref, limit=2):
    out = []
    n = 0
    shape = code.shape
    for idx in itertools.product(*[range(d) for d in shape]):
        a, b = code.get(idx), ref.get(idx)
        if a != b:
            n += 1
            if len(out) < limit:
                d = a - b
                s = repr(d)
                out.append(f"component {list(idx)}: code - reference = "
                           + (s if len(s) < 300 else s[:300] + " ..."))
    return n, out


def check_keys(rep, keys, *, want_refs=True, overrides=None, options=None, label="tensor"):
    """Interpret each key method; record rule instances on `rep`.
    Returns dict key -> list of (cfg, Arr)."""
    S = rep.sources
    fns = S.functions(CORE)
    results = {}
    # every key and helper of these checks is interpreted and has a reference today: an
    # instance that can no longer be interpreted is a shortfall of the analysis, not a pass
    rep.ceiling("interpret", 0)
    rep.ceiling("reference", 0)
    opts = dict(TETRAD_OPTIONS)
    opts.update(options or {})
    for key in keys:
        if "AurelCore." + key not in fns:
            raise AnalysisError(f"anchor vanished: core.py::AurelCore.{key}")
        node = fns["AurelCore." + key]
        ckey = f"{CORE}::AurelCore.{key}"
        results[key] = []
        nconf = 0
        for cfg, res, it in interpret_all_configs(S, key, options=opts, overrides=overrides):
            nconf += 1
            cs = cfg_str(cfg)
            # index-discipline problems met while interpreting
            seen = set()
            for pr in it.problems:
                k = (pr.rule, pr.message)
                if k in seen:
                    continue
                seen.add(k)
                rep.violation("index-discipline/" + pr.rule, f"{ckey}::{pr.rule}",
                              f"[{cs}] {pr.message}", node=pr.node or node, file=CORE)
            if isinstance(res, (Unsupported, PathEnds)):
                if it.problems:
                    continue
                rep.unverified("interpret", f"{ckey}[{cs}]",
                               f"{type(res).__name__}: {res}")
                continue
            if not it.problems:
                rep.ok("index-discipline", f"{ckey}[{cs}]",
                       {"einsum_calls": it.einsum_count})
            if key in OPAQUE_KEYS or key not in KEYTYPES:
                results[key].append((cfg, res))
                continue
            if not isinstance(res, Arr):
                try:
                    res = it.to_arr(res)
                except Unsupported:
                    rep.violation("return-type", ckey, f"[{cs}] does not return an array",
                                  node=node, file=CORE)
                    continue
            dims, var = KEYTYPES[key]
            if tuple(res.shape) != tuple(dims):
                rep.violation("return-type", f"{ckey}::shape", f"[{cs}] returns tensor shape "
                              f"{res.shape}, the key is declared {dims}", node=node, file=CORE)
                continue
            _u, okv = unify_var(res.var, var)
            rep.check(okv, "return-type", f"{ckey}::variance[{cs}]",
                      f"[{cs}] returns index positions {res.var}, the key name declares {var}",
                      node=node, file=CORE)
            results[key].append((cfg, res))
            if not want_refs:
                continue
            try:
                ref = reference_for(key, cfg)
            except RefError as e:
                raise AnalysisError(f"reference for {key} [{cs}] is broken: {e}") from e
            if ref is None:
                rep.unverified("reference", f"{ckey}[{cs}]", "no reference formula")
                continue
            n, lines = diff_summary(res, ref)
            rep.check(n == 0, "reference-agreement", f"{ckey}[{cs}]",
                      f"[{cs}] {n} component(s) differ from the reference formula; "
                      + " | ".join(lines), node=node, file=CORE,
                      detail={"config": cs, "components": len(res.c)})
        if nconf == 0:
            raise AnalysisError(f"{key}: no configuration interpreted")
    return results


def check_helper(rep, method, args, ref_text, extra, case, *, maths=False, config=None,
                 options=None):
    """Interpret a helper (AurelCore method with arguments, or a maths function) on generic
    atom tensors and compare with the reference operator formula.  `extra` maps the names of
    the generic inputs to their Arr for the reference evaluator."""
    from .tensor import Interp, NeedConfig
    S = rep.sources
    owner = "maths.py" if maths else CORE
    qual = method if maths else "AurelCore." + method
    fns = S.functions(owner)
    if qual not in fns:
        raise AnalysisError(f"anchor vanished: {owner}::{qual}")
    node = fns[qual]
    ckey = f"{owner}::{qual}({case})"
    todo = [dict(config or {})]
    opts = dict(TETRAD_OPTIONS)
    opts.update(options or {})
    out = []
    while todo:
        cfg = todo.pop()
        it = Interp(S, cfg)
        try:
            if maths:
                res = it.call_function(node, list(args), {}, "maths." + method, False)
            else:
                res = it.run_method(method, list(args))
        except NeedConfig as q:
            for a in opts.get(q.q, (True, False)):
                c2 = dict(cfg)
                c2[q.q] = a
                todo.append(c2)
            continue
        except (Unsupported, PathEnds) as e:
            if it.problems:
                for pr in it.problems:
                    rep.violation("index-discipline/" + pr.rule, f"{ckey}::{pr.rule}",
                                  f"[{cfg_str(cfg)}] {pr.message}", node=pr.node or node,
                                  file=owner)
            else:
                rep.unverified("interpret", f"{ckey}[{cfg_str(cfg)}]",
                               f"{type(e).__name__}: {e}")
            continue
        cs = cfg_str(cfg)
        seen = set()
        for pr in it.problems:
            if (pr.rule, pr.message) in seen:
                continue
            seen.add((pr.rule, pr.message))
            rep.violation("index-discipline/" + pr.rule, f"{ckey}::{pr.rule}",
                          f"[{cs}] {pr.message}", node=pr.node or node, file=owner)
        if not it.problems:
            rep.ok("index-discipline", f"{ckey}[{cs}]")
        res = it.to_arr(res)
        out.append((cfg, res))
        if ref_text is None:
            continue
        text = ref_text(cfg) if callable(ref_text) else ref_text
        try:
            ref = evaluate(text, "R", extra)
        except RefError as e:
            raise AnalysisError(f"reference for {ckey} is broken: {e}") from e
        if tuple(ref.shape) != tuple(res.shape):
            rep.violation("reference-agreement", f"{ckey}[{cs}]", f"[{cs}] result has tensor "
                          f"shape {res.shape}, the operator's definition has {ref.shape}",
                          node=node, file=owner)
            continue
        n, lines = diff_summary(res, ref)
        rep.check(n == 0, "reference-agreement", f"{ckey}[{cs}]",
                  f"[{cs}] {n} component(s) differ from the operator's definition; "
                  + " | ".join(lines), node=node, file=owner,
                  detail={"case": case, "config": cs})
    return out
