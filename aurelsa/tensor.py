"""Abstract interpreter for the tensor code of aurel (core.py, maths.py).

Every array value is abstracted to an `Arr`: its tensor shape (the leading, non-grid axes),
the variance (up/down) of each slot, and -- componentwise -- an exact polynomial (tpoly.P)
over opaque atoms.  Atoms are components of cached quantities (`Kdown3[0,1]`), options
(`kappa`, `Lambda`), coordinates, and finite-difference derivatives of monomials
(`D[0](alpha)`).  Grid axes are never represented: everything is pointwise.

Nothing of aurel is executed: the interpreter walks the syntax tree of each method, unrolls
loops with literal bounds, inlines helper methods and `maths` functions, folds string/integer
constants, and evaluates `np.einsum` symbolically.  While doing so it enforces the index
discipline (rank, dimension, variance of every contraction and sum).  The resulting
componentwise polynomials are compared with reference formulas by the callers.
"""
from __future__ import annotations

import ast
import itertools
from fractions import Fraction

from .common import AnalysisError, norm_src, unparse
from .exact import const_value
from .tpoly import P, asP


class Unsupported(Exception):
    """Construct outside the interpreted subset: the caller records the method as
    unverified (never as a violation)."""


class PathEnds(Exception):
    """`raise` reached on the interpreted path."""

    def __init__(self, what):
        super().__init__(what)
        self.what = what


class NeedConfig(Exception):
    """The interpreter met a configuration question (self.vacuum, 'k' in self.data, ...)
    that the current configuration does not answer."""

    def __init__(self, q):
        super().__init__(q)
        self.q = q


class TypeProblem:
    def __init__(self, rule, message, node):
        self.rule, self.message, self.node = rule, message, node


GRID = "<grid>"          # a grid dimension (Nx, Ny or Nz)
GRIDSHAPE = (GRID, GRID, GRID)


# ---------------------------------------------------------------------------------------------
# key types
# ---------------------------------------------------------------------------------------------
def _mk(dim, var):
    return (tuple([dim] * len(var)), tuple(var))


KEYTYPES = {}
for _k in """alpha dtalpha betax betay betaz dtbetax dtbetay dtbetaz betamag gxx gxy gxz gyy gyz
 gzz gammadet gtt gtx gty gtz gdet psi_bssnok phi_bssnok dtphi_bssnok kxx kxy kxz kyy kyz kzz
 Ktrace dtKtrace A2 A2_bssnok dttau rho0 press eps rho enthalpy w_lorentz velx vely velz uup0
 hdet Ttrace rho_n Stresstrace_n press_n rho_n_fromHam conserved_D conserved_E theta shear2
 omega2 s_RicciS_u s_RicciS st_RicciS Kretschmann s_RicciS_bssnok null_ray_exp_out
 null_ray_exp_in Hamiltonian Hamiltonian_Escale Hamiltonian_norm Momentumx Momentumy Momentumz
 Momentumdownx Momentumdowny Momentumdownz Momentum_Escale Momentumx_norm Momentumy_norm
 Momentumz_norm Momentumdownx_norm Momentumdowny_norm Momentumdownz_norm Weyl_Psi4r
 Weyl_Psi4i""".split():
    KEYTYPES[_k] = ((), ())
for _k, _v in dict(betaup3="u", dtbetaup3="u", betadown3="d", velup3="u", veldown3="d", uup3="u",
                   udown3="d", fluxup3_n="u", fluxdown3_n="d", angmomup3_n="u",
                   angmomdown3_n="d", fluxup3_n_fromMom="u", conserved_Sdown3="d",
                   conserved_Sup3="u", s_Gamma_bssnok="u", dts_Gamma_bssnok="u",
                   Momentumup3="u", Momentumdown3="d").items():
    KEYTYPES[_k] = _mk(3, _v)
for _k, _v in dict(nup4="u", ndown4="d", velup4="u", veldown4="d", uup4="u", udown4="d",
                   conserved_Sdown4="d", conserved_Sup4="u", accelerationdown4="d",
                   accelerationup4="u").items():
    KEYTYPES[_k] = _mk(4, _v)
for _k, _v in dict(gammadown3="dd", gammaup3="uu", dtgammaup3="uu", gammadown3_bssnok="dd",
                   gammaup3_bssnok="uu", dtgammadown3_bssnok="dd", Kdown3="dd", Kup3="uu",
                   Adown3="dd", Aup3="uu", Adown3_bssnok="dd", Aup3_bssnok="uu",
                   dtAdown3_bssnok="dd", DDalpha="dd", Stressup3_n="uu", Stressdown3_n="dd",
                   anisotropic_press_down3_n="dd", s_Ricci_down3="dd", st_Ricci_down3="dd",
                   s_Ricci_down3_bssnok="dd", s_Ricci_down3_phi="dd", eweyl_n_down3="dd",
                   bweyl_n_down3="dd", s_Gamma_udd3="udd", s_Gamma_udd3_bssnok="udd",
                   s_Riemann_uddd3="uddd", s_Riemann_down3="dddd").items():
    KEYTYPES[_k] = _mk(3, _v)
for _k, _v in dict(gammadown4="dd", gammaup4="uu", gdown4="dd", gup4="uu", hdown4="dd",
                   hmixed4="ud", hup4="uu", Tdown4="dd", Tup4="uu", st_covd_udown4="dd",
                   s_covd_udown4="dd", thetadown4="dd", sheardown4="dd", omegadown4="dd",
                   st_Ricci_down4="dd", Einsteindown4="dd", eweyl_u_down4="dd",
                   bweyl_u_down4="dd", st_Gamma_udd4="udd", st_Riemann_uddd4="uddd",
                   st_Riemann_down4="dddd", st_Riemann_uudd4="uudd",
                   st_Weyl_down4="dddd").items():
    KEYTYPES[_k] = _mk(4, _v)
OPAQUE_KEYS = {"dtconserved", "Weyl_Psi", "Psi4_lm", "Weyl_invariants"}

# mathematical symmetries of cached quantities (used to canonicalise atoms)
SYM2 = {"gammadown3", "gammaup3", "dtgammaup3", "gammadown3_bssnok", "gammaup3_bssnok",
        "dtgammadown3_bssnok", "Kdown3", "Kup3", "Adown3", "Aup3", "Adown3_bssnok",
        "Aup3_bssnok", "dtAdown3_bssnok", "DDalpha", "Stressup3_n", "Stressdown3_n",
        "anisotropic_press_down3_n", "s_Ricci_down3", "st_Ricci_down3", "s_Ricci_down3_bssnok",
        "s_Ricci_down3_phi", "eweyl_n_down3", "bweyl_n_down3", "gammadown4", "gammaup4",
        "gdown4", "gup4", "hdown4", "hup4", "Tdown4", "Tup4", "thetadown4", "sheardown4",
        "st_Ricci_down4", "Einsteindown4", "eweyl_u_down4", "bweyl_u_down4"}
SYM2 |= {"gdown", "gup", "Ricci_down", "Einstein_down"}
ANTISYM2 = {"omegadown4"}
SYM_LAST2 = {"s_Gamma_udd3", "s_Gamma_udd3_bssnok", "st_Gamma_udd4", "Gamma_udd", "Gamma_down"}
RIEMANN = {"s_Riemann_down3", "st_Riemann_down4", "st_Weyl_down4", "Riemann_down"}
ANTISYM_LAST2 = {"s_Riemann_uddd3", "st_Riemann_uddd4", "Riemann_uddd"}
ANTISYM_PAIRS = {"st_Riemann_uudd4"}


def canon_component(key, idx):
    """-> (sign, idx) with sign in {-1, 0, 1}"""
    idx = tuple(idx)
    if key in SYM2:
        return 1, tuple(sorted(idx))
    if key in ANTISYM2:
        if idx[0] == idx[1]:
            return 0, idx
        return (1, idx) if idx[0] < idx[1] else (-1, (idx[1], idx[0]))
    if key in SYM_LAST2:
        return 1, (idx[0],) + tuple(sorted(idx[1:]))
    if key in ANTISYM_LAST2:
        if idx[2] == idx[3]:
            return 0, idx
        return (1, idx) if idx[2] < idx[3] else (-1, idx[:2] + (idx[3], idx[2]))
    if key in ANTISYM_PAIRS or key in RIEMANN:
        a, b, c, d = idx
        if a == b or c == d:
            return 0, idx
        s = 1
        if a > b:
            a, b, s = b, a, -s
        if c > d:
            c, d, s = d, c, -s
        if key in RIEMANN and (c, d) < (a, b):
            a, b, c, d = c, d, a, b
        return s, (a, b, c, d)
    return 1, idx


def atom_name(key, idx=()):
    return key if not idx else key + "[" + ",".join(str(i) for i in idx) + "]"


# ---------------------------------------------------------------------------------------------
# arrays
# ---------------------------------------------------------------------------------------------
class Arr:
    __slots__ = ("shape", "var", "c", "owner")

    def __init__(self, shape=(), var=None, comps=None, owner=None):
        self.shape = tuple(shape)
        self.var = tuple(var) if var is not None else tuple([None] * len(self.shape))
        self.c = comps if comps is not None else {}
        self.owner = owner      # key of the cache entry whose storage this value may share

    @staticmethod
    def scalar(p):
        p = asP(p)
        return Arr((), (), {(): p} if not p.is_zero() else {})

    @staticmethod
    def key(key, types=None):
        dims, var = (types or KEYTYPES)[key]
        comps = {}
        for idx in itertools.product(*[range(d) for d in dims]):
            s, cid = canon_component(key, idx)
            if s:
                comps[idx] = P.atom(atom_name(key, cid)).scale(s)
        return Arr(dims, var, comps)

    @staticmethod
    def atoms(name, shape, var=None):
        comps = {idx: P.atom(atom_name(name, idx))
                 for idx in itertools.product(*[range(d) for d in shape])}
        return Arr(shape, var, comps)

    def get(self, idx):
        return self.c.get(tuple(idx), _ZERO)

    def indices(self):
        return itertools.product(*[range(d) for d in self.shape])

    def map(self, f):
        out = {}
        for k, v in self.c.items():
            r = f(v)
            if not r.is_zero():
                out[k] = r
        return Arr(self.shape, self.var, out)

    def copy(self):
        return Arr(self.shape, self.var, dict(self.c))

    @property
    def rank(self):
        return len(self.shape)

    def __repr__(self):
        return f"Arr{self.shape}{self.var}<{len(self.c)} nonzero>"


_ZERO = P()


def unify_var(a, b):
    """-> (unified tuple, ok)"""
    out, ok = [], True
    for x, y in zip(a, b):
        if x is None:
            out.append(y)
        elif y is None or x == y:
            out.append(x)
        else:
            out.append(x)
            ok = False
    return tuple(out), ok


# ---------------------------------------------------------------------------------------------
# derivative atoms
# ---------------------------------------------------------------------------------------------
def deriv(p, axis):
    """Finite-difference derivative along `axis` of a pointwise polynomial: linear over
    terms, opaque on monomials; nested derivatives of a single atom are merged with sorted
    axes (mixed partial derivatives commute)."""
    out = P()
    for mono, coef in p.t.items():
        if not mono:
            continue  # derivative of a constant
        if len(mono) == 1 and mono[0][1] == 1 and mono[0][0].startswith("D["):
            inner = mono[0][0]
            close = inner.index("]")
            axes = [int(a) for a in inner[2:close].split(",")] + [axis]
            name = "D[" + ",".join(str(a) for a in sorted(axes)) + "]" + inner[close + 1:]
        else:
            name = f"D[{axis}](" + repr(P({mono: Fraction(1)})) + ")"
        out = out + P.atom(name).scale(coef)
    return out


# ---------------------------------------------------------------------------------------------
# the interpreter
# ---------------------------------------------------------------------------------------------
class Env:
    def __init__(self, parent=None):
        self.v = {}

    def get(self, k):
        return self.v[k]

    def has(self, k):
        return k in self.v


class Interp:
    MAXCALL = 12

    def __init__(self, sources, config=None, rel="core.py", cls="AurelCore", keytypes=None,
                 opaque=None):
        self.S = sources
        self.rel = rel
        self.cls = cls
        self.keytypes = keytypes if keytypes is not None else KEYTYPES
        self.opaque = OPAQUE_KEYS if opaque is None else opaque
        self.core = sources.functions(rel)
        self.maths = sources.functions("maths.py")
        self.config = dict(config or {})
        self.problems = []        # TypeProblem list
        self.depth = 0
        self.fn_stack = []
        self.key_reads = set()
        self.einsum_count = 0
        self.overrides = {}
        self._keycache = {}
        self.zero_atoms = set()      # atoms assumed to vanish (specialised interpretation)
        self.branch_atoms = set()    # atoms met in value-dependent branches
        self.rel_stack = [rel]       # module of the function being interpreted
        self.yield_stack = []        # values produced by the generator functions being run
        self._modcache = {}

    # -- configuration ---------------------------------------------------------------------
    def ask(self, q):
        if q not in self.config:
            raise NeedConfig(q)
        return self.config[q]

    def problem(self, rule, message, node):
        self.problems.append(TypeProblem(rule, f"{self.where()}: {message}", node))

    def where(self):
        return "/".join(self.fn_stack) if self.fn_stack else "?"

    # -- calling a method/function -----------------------------------------------------------
    def call_function(self, fn, args, kwargs, qual, has_self, rel=None, closure=None):
        if self.depth > self.MAXCALL:
            raise Unsupported("call depth")
        params = [a.arg for a in fn.args.args]
        if has_self:
            params = params[1:]
        defaults = fn.args.defaults
        env = dict(closure) if closure else {}
        kwargs = dict(kwargs)
        if fn.args.vararg is not None:
            env[fn.args.vararg.arg] = tuple(args[len(params):])
            args = args[:len(params)]
        if len(args) > len(params):
            raise Unsupported(f"too many arguments for {qual}")
        for a, d in zip(fn.args.kwonlyargs, fn.args.kw_defaults):
            if a.arg in kwargs:
                env[a.arg] = kwargs.pop(a.arg)
            elif d is not None:
                env[a.arg] = self.ev(d, {})
            else:
                raise Unsupported(f"missing keyword argument {a.arg} of {qual}")
        if fn.args.kwarg is not None:
            env[fn.args.kwarg.arg] = {k: kwargs.pop(k) for k in list(kwargs)
                                      if k not in params}
        extra = [k for k in kwargs if k not in params]
        if extra:
            raise Unsupported(f"unexpected keyword argument {extra[0]} of {qual}")
        for i, p in enumerate(params):
            if i < len(args):
                env[p] = args[i]
            elif p in kwargs:
                env[p] = kwargs[p]
            else:
                di = i - (len(params) - len(defaults))
                if di < 0:
                    raise Unsupported(f"missing argument {p} of {qual}")
                env[p] = self.ev(defaults[di], {})
        gen = not isinstance(fn, ast.Lambda) and _is_generator(fn)
        self.depth += 1
        self.fn_stack.append(qual)
        self.rel_stack.append(rel or self.rel_stack[-1])
        if gen:
            self.yield_stack.append([])
        try:
            if isinstance(fn, ast.Lambda):
                return self.ev(fn.body, env)
            r = self.exec_block(fn.body, env)
        finally:
            self.depth -= 1
            self.fn_stack.pop()
            self.rel_stack.pop()
            if gen:
                produced = self.yield_stack.pop()
        if gen:
            return produced
        if isinstance(r, _Return):
            return r.value
        return None

    # -- module-level names ------------------------------------------------------------------
    _SHORT = {"numpy": "np", "sympy": "sp", "scipy.constants": "sc"}

    def module_value(self, rel, name):
        """Value of a module-level name: constant tables, functions, lambdas, import aliases."""
        key = (rel, name)
        if key in self._modcache:
            v = self._modcache[key]
            if v is _PENDING:
                raise Unsupported("recursive module-level definition of " + name)
            return v
        found = None
        for st in self.S.module(rel).body:
            if isinstance(st, ast.Assign):
                for t in st.targets:
                    if any(isinstance(n, ast.Name) and n.id == name for n in ast.walk(t)):
                        found = (st, t)
            elif isinstance(st, ast.FunctionDef) and st.name == name:
                found = (st, None)
            elif isinstance(st, (ast.Import, ast.ImportFrom)):
                for al in st.names:
                    if (al.asname or al.name.split(".")[0]) == name:
                        found = (st, al)
        if found is None:
            raise KeyError(name)
        st, t = found
        self._modcache[key] = _PENDING
        try:
            if isinstance(st, ast.FunctionDef):
                v = _Closure(st, None, rel, st.name)
            elif isinstance(st, ast.Import):
                full = t.name if t.asname else t.name.split(".")[0]
                v = _Module(self._SHORT.get(full, full))
            elif isinstance(st, ast.ImportFrom):
                base = st.module or ""
                if st.level and not base:
                    full = t.name                      # from . import maths
                elif st.level:
                    full = base + "." + t.name
                else:
                    full = base + "." + t.name
                v = _Module(self._SHORT.get(full, full))
            else:
                self.rel_stack.append(rel)
                self.fn_stack.append(f"<module {rel}>")
                try:
                    val = self.ev(st.value, {})
                    scratch = {}
                    self.assign(t, val, scratch, st)
                    v = scratch[name]
                finally:
                    self.rel_stack.pop()
                    self.fn_stack.pop()
        except BaseException:
            del self._modcache[key]
            raise
        self._modcache[key] = v
        return v

    def run_method(self, name, args=()):
        fn = self.core.get(self.cls + "." + name)
        if fn is None:
            raise AnalysisError(f"anchor vanished: {self.rel}::{self.cls}.{name}")
        return self.call_function(fn, list(args), {}, name, True, rel=self.rel)

    # -- statements --------------------------------------------------------------------------
    def exec_block(self, stmts, env):
        for st in stmts:
            r = self.exec_stmt(st, env)
            if r is not None:
                return r
        return None

    def exec_stmt(self, st, env):
        if isinstance(st, ast.Expr):
            if isinstance(st.value, ast.Constant):
                return None
            if isinstance(st.value, (ast.Yield, ast.YieldFrom)):
                if not self.yield_stack:
                    raise Unsupported("yield outside a generator call")
                v = self.ev(st.value.value, env) if st.value.value is not None else None
                if isinstance(st.value, ast.YieldFrom):
                    if not isinstance(v, (list, tuple, range)):
                        raise Unsupported("yield from " + type(v).__name__)
                    self.yield_stack[-1].extend(v)
                else:
                    self.yield_stack[-1].append(v)
                return None
            if isinstance(st.value, ast.Call) and unparse(st.value.func) in (
                    "self.myprint", "print", "warnings.warn"):
                return None
            self.ev(st.value, env)
            return None
        if isinstance(st, ast.Pass):
            return None
        if isinstance(st, ast.Return):
            return _Return(self.ev(st.value, env) if st.value is not None else None)
        if isinstance(st, ast.Raise):
            raise PathEnds(norm_src(st)[:80])
        if isinstance(st, ast.Assign):
            val = self.ev(st.value, env)
            for t in st.targets:
                self.assign(t, val, env, st)
            return None
        if isinstance(st, ast.AugAssign):
            cur = self.ev(st.target, env)
            if isinstance(cur, Arr) and cur.owner is not None:
                self.problem("inplace-on-cached", f"in-place update `{norm_src(st)[:70]}` "
                             f"writes into the array cached as '{cur.owner}' (a value that may "
                             "already have been handed out)", st)
            rhs = self.ev(st.value, env)
            val = self.binop(st.op, cur, rhs, st)
            self.assign(st.target, val, env, st)
            return None
        if isinstance(st, ast.If):
            c = self.truth(self.ev(st.test, env), st.test)
            return self.exec_block(st.body if c else st.orelse, env)
        if isinstance(st, ast.For):
            it = self.ev(st.iter, env)
            if isinstance(it, Arr):
                raise Unsupported("iteration over an array")
            if isinstance(it, dict):
                it = list(it)
            if not isinstance(it, (list, tuple, range, str)):
                raise Unsupported(f"for over {type(it).__name__}")
            if len(it) > 4096:
                raise Unsupported("long loop")
            broke = False
            for x in it:
                self.assign(st.target, x, env, st)
                try:
                    r = self.exec_block(st.body, env)
                except _Break:
                    broke = True
                    break
                except _Continue:
                    continue
                if r is not None:
                    return r
            if st.orelse and not broke:
                return self.exec_block(st.orelse, env)
            return None
        if isinstance(st, ast.While):
            broke, n = False, 0
            while True:
                try:
                    if not self.truth(self.ev(st.test, env), st.test):
                        break
                except Unsupported as e:
                    if type(e).__name__ == "SymbolicBranch":
                        # a loop bound, not a shortcut around the loop body
                        raise Unsupported(f"while loop with a symbolic bound ({e})")
                    raise
                n += 1
                if n > 4096:
                    raise Unsupported("long loop")
                try:
                    r = self.exec_block(st.body, env)
                except _Break:
                    broke = True
                    break
                except _Continue:
                    continue
                if r is not None:
                    return r
            if st.orelse and not broke:
                return self.exec_block(st.orelse, env)
            return None
        if isinstance(st, ast.Break):
            raise _Break()
        if isinstance(st, ast.Continue):
            raise _Continue()
        if isinstance(st, ast.Delete):
            return None
        if isinstance(st, ast.FunctionDef):
            if st.decorator_list:
                raise Unsupported("decorated local function")
            env[st.name] = _Closure(st, env, self.rel_stack[-1], st.name)
            return None
        if isinstance(st, ast.Assert):
            return None
        raise Unsupported(f"statement {type(st).__name__}")

    def assign(self, target, val, env, st):
        if isinstance(target, ast.Name):
            env[target.id] = val
            return
        if isinstance(target, (ast.Tuple, ast.List)):
            if isinstance(val, Arr):
                if val.rank == 0 or val.shape[0] != len(target.elts):
                    self.problem("unpack-shape", f"cannot unpack {val} into "
                                 f"{len(target.elts)} names", st)
                    raise Unsupported("bad unpack")
                vals = [self.index_arr(val, [i], st) for i in range(val.shape[0])]
            elif isinstance(val, (list, tuple, _NT, str)):
                if isinstance(val, _NT):
                    val = val.values
                if len(val) != len(target.elts):
                    raise Unsupported("unpack length")
                vals = list(val)
            else:
                raise Unsupported("unpack of " + type(val).__name__)
            for t, v in zip(target.elts, vals):
                self.assign(t, v, env, st)
            return
        if isinstance(target, ast.Subscript):
            base = self.ev(target.value, env)
            if isinstance(base, Arr):
                self.store_arr(base, target.slice, val, env, st)
                return
            if isinstance(base, list):
                i = self.ev(target.slice, env)
                base[_as_int(i)] = val
                return
            if isinstance(base, dict):
                base[_hashable(self.ev(target.slice, env))] = val
                return
        raise Unsupported("assignment target " + unparse(target))

    # -- array indexing / storing ------------------------------------------------------------
    def _slice_spec(self, sl, env, arr, node):
        """Normalise a subscript into a list of per-axis selectors: int or (lo, hi)."""
        items = sl.elts if isinstance(sl, ast.Tuple) else [sl]
        spec = []
        for it in items:
            if isinstance(it, ast.Slice):
                lo = self.ev(it.lower, env) if it.lower is not None else None
                hi = self.ev(it.upper, env) if it.upper is not None else None
                if it.step is not None:
                    raise Unsupported("stepped slice")
                spec.append((None if lo is None else _as_int(lo),
                             None if hi is None else _as_int(hi)))
            else:
                v = self.ev(it, env)

                def one(x):
                    if isinstance(x, slice):
                        if x.step is not None:
                            raise Unsupported("stepped slice")
                        return (None if x.start is None else _as_int(x.start),
                                None if x.stop is None else _as_int(x.stop))
                    return _as_int(x)
                if isinstance(v, (tuple, list)) and not isinstance(sl, ast.Tuple):
                    spec.extend(one(x) for x in v)
                else:
                    spec.append(one(v))
        return spec

    def index_arr(self, arr, spec, node):
        spec = list(spec)
        # trailing full slices over grid axes are dropped
        while len(spec) > arr.rank and spec[-1] == (None, None):
            spec.pop()
        if len(spec) > arr.rank:
            self.problem("index-rank", f"{len(spec)} indices into a rank-{arr.rank} tensor",
                         node)
            raise Unsupported("too many indices")
        sel = []
        new_shape, new_var = [], []
        for ax, s in enumerate(spec):
            d = arr.shape[ax]
            if isinstance(s, tuple):
                lo = 0 if s[0] is None else (s[0] if s[0] >= 0 else d + s[0])
                hi = d if s[1] is None else (s[1] if s[1] >= 0 else d + s[1])
                hi = min(hi, d)
                sel.append(list(range(lo, hi)))
                new_shape.append(max(hi - lo, 0))
                new_var.append(arr.var[ax])
            else:
                i = s if s >= 0 else d + s
                if not 0 <= i < d:
                    self.problem("index-range", f"index {s} out of range for a slot of "
                                 f"dimension {d}", node)
                    raise Unsupported("index out of range")
                sel.append(i)
        for ax in range(len(spec), arr.rank):
            sel.append(list(range(arr.shape[ax])))
            new_shape.append(arr.shape[ax])
            new_var.append(arr.var[ax])
        out = {}
        for idx, p in arr.c.items():
            new = []
            ok = True
            for ax, s in enumerate(sel):
                if isinstance(s, list):
                    if idx[ax] in s:
                        new.append(s.index(idx[ax]))
                    else:
                        ok = False
                        break
                elif idx[ax] != s:
                    ok = False
                    break
            if ok:
                out[tuple(new)] = p
        return Arr(new_shape, new_var, out, owner=arr.owner)

    def store_arr(self, arr, sl, val, env, node):
        if arr.owner is not None:
            self.problem("inplace-on-cached", f"store `{norm_src(node)[:70]}` writes into the "
                         f"array cached as '{arr.owner}'", node)
        # A[I, J] = v with equally long integer index lists: the entries (I[k], J[k])
        if isinstance(sl, ast.Tuple) and len(sl.elts) >= 2:
            try:
                idx = [self.ev(e, env) for e in sl.elts]
            except Unsupported:
                idx = []
            if idx and all(isinstance(i, (list, range)) and all(
                    isinstance(x, int) and not isinstance(x, bool) for x in i) for i in idx) \
                    and len({len(i) for i in idx}) == 1 and len(idx) <= arr.rank:
                for pos in zip(*idx):
                    consts = [ast.Constant(value=int(x)) for x in pos]
                    one = ast.Tuple(elts=consts, ctx=ast.Load())
                    self.store_arr(arr, one, val, env, node)
                return
        spec = self._slice_spec(sl, env, arr, node)
        while len(spec) > arr.rank and spec[-1] == (None, None):
            spec.pop()
        if len(spec) > arr.rank:
            raise Unsupported("store with too many indices")
        sel = []
        sub_shape = []
        for ax in range(arr.rank):
            d = arr.shape[ax]
            s = spec[ax] if ax < len(spec) else (None, None)
            if isinstance(s, tuple):
                lo = 0 if s[0] is None else s[0]
                hi = d if s[1] is None else min(s[1], d)
                sel.append(list(range(lo, hi)))
                sub_shape.append(hi - lo)
            else:
                if not 0 <= s < d:
                    self.problem("index-range", f"store index {s} out of range (dim {d})",
                                 node)
                    raise Unsupported("store out of range")
                sel.append(s)
        val = self.to_arr(val)
        if val.rank == 0:
            v0 = val.get(())
            getv = lambda sub: v0  # noqa: E731
        else:
            if tuple(val.shape) != tuple(sub_shape):
                self.problem("store-shape", f"storing shape {val.shape} into a region of "
                             f"shape {tuple(sub_shape)}", node)
                raise Unsupported("store shape")
            getv = lambda sub: val.get(sub)  # noqa: E731
            nv, ok = unify_var(tuple(arr.var[ax] for ax in range(arr.rank)
                                     if isinstance(sel[ax], list)), val.var)
            if not ok:
                self.problem("store-variance", "stored block has index positions "
                             f"{val.var}, target slots {arr.var}", node)
            # propagate variance information into wildcard slots
            k = 0
            newvar = list(arr.var)
            for ax in range(arr.rank):
                if isinstance(sel[ax], list):
                    if newvar[ax] is None:
                        newvar[ax] = nv[k]
                    k += 1
            arr.var = tuple(newvar)
        ranges = [s if isinstance(s, list) else [s] for s in sel]
        for full in itertools.product(*ranges):
            sub = tuple(ranges[ax].index(full[ax]) for ax in range(arr.rank)
                        if isinstance(sel[ax], list))
            p = getv(sub)
            if p.is_zero():
                arr.c.pop(full, None)
            else:
                arr.c[full] = p

    # -- values ------------------------------------------------------------------------------
    def to_arr(self, v):
        if isinstance(v, Arr):
            return v
        if isinstance(v, P):
            return Arr.scalar(v)
        if isinstance(v, bool):
            raise Unsupported("bool used as number")
        if isinstance(v, (int, Fraction)):
            return Arr.scalar(P.const(v))
        if isinstance(v, float):
            return Arr.scalar(P.const(Fraction(v).limit_denominator(10**9)))
        if isinstance(v, (list, tuple)):
            return self.stack([self.to_arr(x) for x in v], None)
        raise Unsupported(f"not a numeric value: {type(v).__name__}")

    def stack(self, items, node):
        if not items:
            raise Unsupported("empty stack")
        shape = items[0].shape
        var = items[0].var
        for it in items[1:]:
            if it.shape != shape:
                self.problem("stack-shape", f"stacking shapes {shape} and {it.shape}", node)
                raise Unsupported("ragged stack")
            var, ok = unify_var(var, it.var)
            if not ok:
                self.problem("stack-variance", "stacked components have different index "
                             "positions", node)
        out = {}
        for i, it in enumerate(items):
            for idx, p in it.c.items():
                out[(i,) + idx] = p
        return Arr((len(items),) + shape, (None,) + tuple(var), out)

    def truth(self, v, node):
        if isinstance(v, (bool, int, str, list, tuple, dict, type(None), Fraction, range)):
            return bool(v)
        if isinstance(v, (_Closure, _NT, _NTClass, _Module, _Builtin, _Partial)):
            return True
        if isinstance(v, Arr) and v.rank == 0 and v.get(()).is_const():
            return v.get(()).cval() != 0
        raise Unsupported("condition on a symbolic value: " + unparse(node))

    # -- expressions -------------------------------------------------------------------------
    def ev(self, node, env):
        cv = const_value(node)
        if cv is not None and not isinstance(node, ast.Name):
            return int(cv) if cv.denominator == 1 and _looks_int(node) else cv
        m = getattr(self, "ev_" + type(node).__name__, None)
        if m is None:
            raise Unsupported("expression " + type(node).__name__)
        return m(node, env)

    def ev_Constant(self, node, env):
        v = node.value
        if isinstance(v, complex):
            if v.real == 0:
                return Arr.scalar(P.atom("I").scale(Fraction(v.imag).limit_denominator(10**9)))
            raise Unsupported("complex literal")
        return v

    def ev_Name(self, node, env):
        if node.id in env:
            return env[node.id]
        if node.id in ("np", "maths", "numerical", "self", "sc", "sys", "operator", "functools",
                       "itertools", "collections", "math"):
            return _Module(node.id)
        if node.id in ("True", "False", "None"):
            return {"True": True, "False": False, "None": None}[node.id]
        if node.id in ("len", "range", "float", "int", "abs", "str", "isinstance", "list",
                       "tuple", "sum", "min", "max", "enumerate", "zip", "print"):
            return _Builtin(node.id)
        if node.id in ("set", "sorted", "reversed", "dict", "all", "any", "bool", "map",
                       "frozenset", "divmod", "round", "pow", "callable", "getattr", "next",
                       "iter", "slice"):
            return _Builtin(node.id)
        # module-level names of the module being interpreted (and of maths.py)
        for rel in dict.fromkeys((self.rel_stack[-1], self.rel, "maths.py")):
            try:
                return self.module_value(rel, node.id)
            except KeyError:
                continue
        raise Unsupported("unbound name " + node.id)

    def ev_Lambda(self, node, env):
        return _Closure(node, env, self.rel_stack[-1], "<lambda>")

    def ev_Starred(self, node, env):
        raise Unsupported("starred expression outside a display")

    def _elts(self, elts, env):
        out = []
        for e in elts:
            if isinstance(e, ast.Starred):
                v = self.ev(e.value, env)
                if isinstance(v, Arr):
                    if v.rank == 0:
                        raise Unsupported("unpacking a scalar")
                    out.extend(self.index_arr(v, [i], e) for i in range(v.shape[0]))
                elif isinstance(v, (list, tuple)):
                    out.extend(v)
                else:
                    raise Unsupported("unpacking " + type(v).__name__)
            else:
                out.append(self.ev(e, env))
        return out

    def ev_JoinedStr(self, node, env):
        out = []
        for v in node.values:
            if isinstance(v, ast.Constant):
                out.append(str(v.value))
                continue
            try:
                x = self.ev(v.value, env)
            except Unsupported:
                return "<fstring>"
            if isinstance(x, Fraction) and x.denominator == 1:
                x = int(x)
            if isinstance(x, bool) or not isinstance(x, (int, str)):
                return "<fstring>"
            spec = ""
            if v.format_spec is not None:
                if not all(isinstance(q, ast.Constant) for q in v.format_spec.values):
                    return "<fstring>"
                spec = "".join(str(q.value) for q in v.format_spec.values)
            if v.conversion == 114:
                x = repr(x)
            try:
                out.append(format(x, spec))
            except (ValueError, TypeError):
                return "<fstring>"
        return "".join(out)

    def ev_Tuple(self, node, env):
        return tuple(self._elts(node.elts, env))

    def ev_List(self, node, env):
        return self._elts(node.elts, env)

    def ev_Dict(self, node, env):
        out = {}
        for k, v in zip(node.keys, node.values):
            if k is None:                       # **mapping
                extra = self.ev(v, env)
                if not isinstance(extra, dict):
                    raise Unsupported("** of a non-dictionary")
                out.update(extra)
            else:
                out[_hashable(self.ev(k, env))] = self.ev(v, env)
        return out

    def _comprehend(self, node, env, emit):
        """One scope for the whole comprehension, as in python: a function created in it sees
        the loop variables as they are when it is *called* (late binding)."""
        scope = dict(env)

        def rec(k):
            if k == len(node.generators):
                emit(scope)
                return
            g = node.generators[k]
            it = self.ev(g.iter, scope)
            if isinstance(it, dict):
                it = list(it)
            if not isinstance(it, (list, tuple, range, str)):
                raise Unsupported("comprehension over " + type(it).__name__)
            for x in it:
                self.assign(g.target, x, scope, node)
                if all(self.truth(self.ev(c, scope), c) for c in g.ifs):
                    rec(k + 1)
        rec(0)

    def ev_ListComp(self, node, env):
        out = []
        self._comprehend(node, env, lambda sc: out.append(self.ev(node.elt, sc)))
        return out

    ev_GeneratorExp = ev_ListComp
    ev_SetComp = ev_ListComp

    def ev_DictComp(self, node, env):
        out = {}

        def emit(sc):
            out[_hashable(self.ev(node.key, sc))] = self.ev(node.value, sc)
        self._comprehend(node, env, emit)
        return out

    def ev_IfExp(self, node, env):
        return self.ev(node.body if self.truth(self.ev(node.test, env), node.test)
                       else node.orelse, env)

    def ev_BoolOp(self, node, env):
        if isinstance(node.op, ast.And):
            r = True
            for v in node.values:
                r = self.ev(v, env)
                if not self.truth(r, v):
                    return r
            return r
        r = False
        for v in node.values:
            r = self.ev(v, env)
            if self.truth(r, v):
                return r
        return r

    def ev_UnaryOp(self, node, env):
        v = self.ev(node.operand, env)
        if isinstance(node.op, ast.Not):
            return not self.truth(v, node.operand)
        if isinstance(node.op, ast.USub):
            if isinstance(v, (int, Fraction)) and not isinstance(v, bool):
                return -v
            a = self.to_arr(v)
            return a.map(lambda p: -p)
        if isinstance(node.op, ast.UAdd):
            return v
        raise Unsupported("unary op")

    def ev_Compare(self, node, env):
        left = self.ev(node.left, env)
        result = True
        for op, comp in zip(node.ops, node.comparators):
            # presence guards:  'k' in self.data  /  'k' in self.data.keys()
            if isinstance(op, (ast.In, ast.NotIn)) and _is_self_data(comp):
                if not isinstance(left, str):
                    raise Unsupported("presence test with non-literal key")
                ans = self.ask("in:" + left)
                ans = ans if isinstance(op, ast.In) else not ans
                result = result and ans
                left = None
                continue
            right = self.ev(comp, env)
            if isinstance(op, (ast.Is, ast.IsNot)) and (left is None or right is None):
                r = (left is right) if isinstance(op, ast.Is) else (left is not right)
                result = result and r
                left = right
                continue
            if isinstance(left, (Arr, P)) or isinstance(right, (Arr, P)):
                la = self.to_arr(left) if isinstance(left, (Arr, P)) else None
                ra = self.to_arr(right) if isinstance(right, (Arr, P)) else None
                both_const = all(a is None or (a.rank == 0 and a.get(()).is_const())
                                 for a in (la, ra))
                if both_const:
                    left = la.get(()).cval() if la is not None else left
                    right = ra.get(()).cval() if ra is not None else right
                else:
                    if isinstance(op, (ast.Eq, ast.NotEq)):
                        # generic tensors: components are independent non-zero symbols
                        for a_ in (la, ra):
                            if a_ is not None:
                                for p_ in a_.c.values():
                                    self.branch_atoms |= p_.atoms()
                        self.problem("value-dependent-branch", "the formula branches on the "
                                     f"value of a tensor component (`{unparse(node)}`); the "
                                     "defining formula has no such case distinction", node)
                        r = isinstance(op, ast.NotEq)
                        result = result and r
                        left = right
                        continue
                    raise Unsupported("comparison of symbolic values")
            if isinstance(op, ast.Eq):
                r = left == right
            elif isinstance(op, ast.NotEq):
                r = left != right
            elif isinstance(op, ast.Lt):
                r = left < right
            elif isinstance(op, ast.LtE):
                r = left <= right
            elif isinstance(op, ast.Gt):
                r = left > right
            elif isinstance(op, ast.GtE):
                r = left >= right
            elif isinstance(op, ast.In):
                r = left in right
            elif isinstance(op, ast.NotIn):
                r = left not in right
            elif isinstance(op, ast.Is):
                r = left is right
            elif isinstance(op, ast.IsNot):
                r = left is not right
            else:
                raise Unsupported("comparison operator")
            result = result and r
            left = right
        return result

    def ev_BinOp(self, node, env):
        a = self.ev(node.left, env)
        b = self.ev(node.right, env)
        return self.binop(node.op, a, b, node)

    def binop(self, op, a, b, node):
        num = (int, Fraction)
        if isinstance(a, str) or isinstance(b, str):
            if isinstance(op, ast.Add) and isinstance(a, str) and isinstance(b, str):
                return a + b
            if isinstance(op, ast.Mod) and isinstance(a, str):
                vals = tuple(b) if isinstance(b, (tuple, list)) else (b,)
                if all(isinstance(x, (str, int)) and not isinstance(x, bool) for x in vals):
                    try:
                        return a % vals
                    except (TypeError, ValueError):
                        pass
            if isinstance(op, ast.Mult) and isinstance(a, str) and isinstance(b, int):
                return a * b
            raise Unsupported("string arithmetic")
        if isinstance(a, (list, tuple)) and isinstance(b, (list, tuple)) \
                and isinstance(op, ast.Add) and not _numeric_seq(a):
            return list(a) + list(b)
        # sequence repetition: (dim,) * rank, [0] * n -- shapes and fill lists
        if isinstance(op, ast.Mult):
            for seq, k in ((a, b), (b, a)):
                if isinstance(seq, tuple) and isinstance(k, num) and not isinstance(k, bool) \
                        and Fraction(k).denominator == 1 and len(seq) <= 2 \
                        and all(isinstance(x, num) for x in seq):
                    return tuple(seq) * int(k)
                # [zero] * 4: a python list of fields repeated (a row of a block matrix)
                if isinstance(seq, list) and isinstance(k, int) and not isinstance(k, bool) \
                        and 0 <= k <= 64 and seq and not _numeric_seq(seq):
                    return list(seq) * k
        if isinstance(a, num) and isinstance(b, num) and not isinstance(a, bool) \
                and not isinstance(b, bool):
            if isinstance(op, ast.Add):
                return a + b
            if isinstance(op, ast.Sub):
                return a - b
            if isinstance(op, ast.Mult):
                return a * b
            if isinstance(op, ast.Div):
                if b == 0:
                    raise Unsupported("division by zero constant")
                return Fraction(a) / Fraction(b)
            if isinstance(op, ast.FloorDiv):
                return (Fraction(a) / Fraction(b)).__floor__()
            if isinstance(op, ast.Mod):
                return a % b
            if isinstance(op, ast.Pow):
                if isinstance(b, int) or b.denominator == 1:
                    return Fraction(a) ** int(b)
                return Arr.scalar(P.const(a).pow(b))
        A, B = self.to_arr(a), self.to_arr(b)
        if isinstance(op, (ast.Add, ast.Sub)):
            return self.add(A, B, isinstance(op, ast.Sub), node)
        if isinstance(op, ast.Mult):
            return self.mul(A, B, node)
        if isinstance(op, ast.Div):
            return self.mul(A, self.recip(B, node), node)
        if isinstance(op, ast.Pow):
            if B.rank != 0 or not B.get(()).is_const():
                raise Unsupported("symbolic exponent")
            e = B.get(()).cval()
            return A.map(lambda p: p.pow(e)) if e != 0 else Arr(A.shape, A.var, {
                idx: P.const(1) for idx in A.indices()})
        raise Unsupported("binary operator " + type(op).__name__)

    def recip(self, B, node):
        if any(B.get(idx).is_zero() for idx in B.indices()):
            raise Unsupported("division by an identically zero component")
        return B.map(lambda p: p.pow(-1))

    def broadcast(self, A, B, node, what):
        """numpy broadcasting over the tensor axes (aligned at the trailing end, the grid
        axes being last): returns aligned (A', B', shape, var)."""
        if A.rank == B.rank:
            if A.shape != B.shape:
                self.problem("shape-mismatch", f"{what} of shapes {A.shape} and {B.shape}",
                             node)
                raise Unsupported("shape mismatch")
            return A, B
        if A.rank == 0 or B.rank == 0:
            return A, B
        # different non-zero ranks: numpy aligns trailing axes
        lo, hi = (A, B) if A.rank < B.rank else (B, A)
        if hi.shape[-lo.rank:] != lo.shape:
            self.problem("shape-mismatch", f"{what} of shapes {A.shape} and {B.shape}", node)
            raise Unsupported("shape mismatch")
        self.problem("broadcast-rank", f"{what} broadcasts a rank-{lo.rank} tensor against "
                     f"the trailing slots of a rank-{hi.rank} tensor", node)
        raise Unsupported("rank-changing broadcast")

    def add(self, A, B, sub, node):
        A, B = self.broadcast(A, B, node, "sum")
        if A.rank == 0 and B.rank > 0:
            a0 = A.get(())
            if a0.is_zero():
                return B.map(lambda p: -p) if sub else B
            A = Arr(B.shape, B.var, {idx: a0 for idx in B.indices()})
        if B.rank == 0 and A.rank > 0:
            b0 = B.get(())
            if b0.is_zero():
                return A
            B = Arr(A.shape, A.var, {idx: b0 for idx in A.indices()})
        var, ok = unify_var(A.var, B.var)
        if not ok:
            self.problem("sum-variance", f"adding tensors with index positions "
                         f"{_vs(A.var)} and {_vs(B.var)}", node)
        out = dict(A.c)
        for idx, p in B.c.items():
            r = out.get(idx, _ZERO) - p if sub else out.get(idx, _ZERO) + p
            if r.is_zero():
                out.pop(idx, None)
            else:
                out[idx] = r
        return Arr(A.shape, var, out)

    def mul(self, A, B, node):
        A, B = self.broadcast(A, B, node, "product")
        if A.rank == 0:
            a0 = A.get(())
            return B.map(lambda p: p * a0)
        if B.rank == 0:
            b0 = B.get(())
            return A.map(lambda p: p * b0)
        var, ok = unify_var(A.var, B.var)
        if not ok:
            self.problem("product-variance", "componentwise product of tensors with index "
                         f"positions {_vs(A.var)} and {_vs(B.var)}", node)
        out = {}
        for idx, p in A.c.items():
            q = B.c.get(idx)
            if q is not None:
                r = p * q
                if not r.is_zero():
                    out[idx] = r
        return Arr(A.shape, var, out)

    # -- attribute / subscript ---------------------------------------------------------------
    def ev_Attribute(self, node, env):
        src = unparse(node)
        if src == "self.vacuum":
            return bool(self.ask("vacuum"))
        if src == "self.tetrad":
            return self.ask("tetrad")
        if src == "self.Lambda":
            return Arr.scalar(P.atom("Lambda"))
        if src == "self.kappa":
            return Arr.scalar(P.atom("kappa"))
        if src == "self.data_shape":
            return GRIDSHAPE
        if src == "self.verbose":
            return False
        if src == "self.dim":
            return int(self.ask("dim"))
        if src == "self.simplify":
            return bool(self.ask("simplify"))
        if src == "self.coords":
            return list(range(int(self.ask("dim"))))    # coordinate k is named by its index
        if src in ("self.data", "self.param", "self.fd"):
            return _Module(src)
        if src in ("self.fd.x", "self.fd.y", "self.fd.z"):
            return Arr.scalar(P.atom("coord_" + src[-1]))
        if src == "self.fd.cartesian_coords":
            return Arr((3,), ("u",), {(i,): P.atom("coord_" + "xyz"[i]) for i in range(3)})
        if src == "np.pi":
            return Arr.scalar(P.atom("pi"))
        base = self.ev(node.value, env)
        if isinstance(base, _Module):
            return _Module(base.name + "." + node.attr)
        if isinstance(base, _NT):
            if node.attr in base.cls.fields:
                return base.values[base.cls.fields.index(node.attr)]
            if node.attr in ("_asdict", "_replace"):
                return _BoundMethod(base, node.attr)
            if node.attr == "_fields":
                return tuple(base.cls.fields)
            raise Unsupported("attribute " + src)
        if isinstance(base, _NTClass):
            if node.attr == "_make":
                return _BoundMethod(base, "_make")
            if node.attr == "_fields":
                return tuple(base.fields)
            raise Unsupported("attribute " + src)
        if isinstance(base, (str, list, dict, tuple)):
            return _BoundMethod(base, node.attr)
        if isinstance(base, Arr):
            if node.attr == "shape":
                return tuple(base.shape) + GRIDSHAPE
            if node.attr == "T":
                raise Unsupported(".T")
            return _BoundMethod(base, node.attr)
        raise Unsupported("attribute " + src)

    def ev_Subscript(self, node, env):
        # self["key"] and self.data["key"]
        if isinstance(node.value, ast.Name) and node.value.id == "self" \
                or unparse(node.value) == "self.data":
            k = self.ev(node.slice, env)
            if not isinstance(k, str):
                raise Unsupported("non-literal key")
            return self.read_key(k, node)
        if unparse(node.value) == "self.param":
            return GRID
        base = self.ev(node.value, env)
        if isinstance(base, Arr):
            items = node.slice.elts if isinstance(node.slice, ast.Tuple) else [node.slice]
            newax = [i for i, it in enumerate(items)
                     if unparse(it) in ("np.newaxis", "None", "numpy.newaxis")]
            if newax:
                # x[.., np.newaxis, ..]: index without the new axes, then insert them
                rest = [it for i, it in enumerate(items) if i not in newax]
                if rest:
                    sub = ast.Subscript(value=node.value, slice=ast.Tuple(
                        elts=rest, ctx=ast.Load()) if len(rest) > 1 else rest[0],
                        ctx=ast.Load())
                    spec = self._slice_spec(sub.slice, env, base, node)
                    if any(not isinstance(x, tuple) for x in spec):
                        raise Unsupported("np.newaxis mixed with integer indices")
                    cur = self.index_arr(base, spec, node)
                else:
                    cur = base
                for pos in newax:
                    if pos > cur.rank:
                        raise Unsupported("np.newaxis on a grid axis")
                    cur = Arr(cur.shape[:pos] + (1,) + cur.shape[pos:],
                              tuple(cur.var[:pos]) + (None,) + tuple(cur.var[pos:]),
                              {idx[:pos] + (0,) + idx[pos:]: v for idx, v in cur.c.items()})
                return cur
            spec = self._slice_spec(node.slice, env, base, node)
            return self.index_arr(base, spec, node)
        if isinstance(base, (list, tuple, str, range)):
            if isinstance(node.slice, ast.Slice):
                lo = self.ev(node.slice.lower, env) if node.slice.lower is not None else None
                hi = self.ev(node.slice.upper, env) if node.slice.upper is not None else None
                return base[lo:hi]
            return base[_as_int(self.ev(node.slice, env))]
        if isinstance(base, dict):
            k = _hashable(self.ev(node.slice, env))
            if k not in base:
                raise PathEnds(f"KeyError {k!r}")
            return base[k]
        if isinstance(base, _NT):
            return base.values[_as_int(self.ev(node.slice, env))]
        raise Unsupported("subscript of " + type(base).__name__)

    def read_key(self, k, node):
        self.key_reads.add(k)
        if k in self.opaque:
            if k == "dtconserved":
                return (Arr.scalar(P.atom("dtconserved_D")), Arr.scalar(P.atom("dtconserved_E")),
                        Arr((3,), ("d",), {(i,): P.atom(f"dtconserved_S[{i}]")
                                           for i in range(3)}))
            if k == "Weyl_Psi":
                return [Arr.scalar(P.atom(f"Weyl_Psi[{i}]")) for i in range(5)]
            raise Unsupported("opaque key " + k)
        if k not in self.keytypes:
            raise Unsupported("untyped key " + k)
        a = self._keycache.get(k)
        if a is None:
            a = Arr.key(k, self.keytypes)
            if self.zero_atoms:
                a = Arr(a.shape, a.var, {i: p for i, p in a.c.items()
                                         if not (p.atoms() & self.zero_atoms)})
            self._keycache[k] = a
        return Arr(a.shape, a.var, dict(a.c), owner=k)

    # -- calls ---------------------------------------------------------------------------------
    def callee_name(self, func, env):
        """Dotted name of the callee with import aliases of the module resolved."""
        fsrc = unparse(func)
        root = func
        while isinstance(root, ast.Attribute):
            root = root.value
        if isinstance(root, ast.Name) and root.id not in env and root.id not in (
                "np", "sp", "self", "maths", "numerical", "sc", "sys"):
            try:
                v = self.ev_Name(root, env)
            except Unsupported:
                return fsrc
            if isinstance(v, _Module) and v.name != root.id:
                return v.name + fsrc[len(root.id):]
        return fsrc

    def ev_Call(self, node, env):
        fsrc = self.callee_name(node.func, env)
        # keyword/positional evaluation is lazy for a few intrinsics
        if fsrc in ("self.myprint", "print", "warnings.warn"):
            return None
        if fsrc == "np.einsum":
            return self.einsum(node, env)
        args = self._elts(node.args, env)
        kwargs = {}
        for k in node.keywords:
            if k.arg:
                kwargs[k.arg] = self.ev(k.value, env)
            else:
                extra = self.ev(k.value, env)
                if not isinstance(extra, dict):
                    raise Unsupported("** of a non-dictionary")
                kwargs.update(extra)
        return self.dispatch_call(node, fsrc, args, kwargs, env)

    def dispatch_call(self, node, fsrc, args, kwargs, env):
        if fsrc.startswith("self.fd."):
            return self.fd_call(fsrc[8:], args, node)
        if fsrc.startswith("self."):
            name = fsrc[5:]
            if name in self.overrides:
                return self.overrides[name](self, *args)
            fn = self.core.get(self.cls + "." + name)
            if fn is None:
                raise Unsupported("unknown method " + name)
            return self.call_function(fn, args, kwargs, name, True, rel=self.rel)
        if fsrc.startswith("maths."):
            name = fsrc[6:]
            if name == "safe_division":
                return self.mul(self.to_arr(args[0]),
                                self.recip(self.to_arr(args[1]), node), node)
            fn = self.maths.get(name)
            if fn is None:
                raise Unsupported("unknown maths function " + name)
            return self.call_function(fn, args, kwargs, "maths." + name, False,
                                      rel="maths.py")
        if fsrc in ("itertools.product", "product") and args and all(
                isinstance(a, (range, list, tuple)) for a in args):
            import itertools as _it
            rep_ = kwargs.get("repeat", 1)
            out = list(_it.product(*[list(a) for a in args], repeat=_as_int(rep_)))
            if len(out) > 4096:
                raise Unsupported("long product")
            return out
        if fsrc in ("itertools.permutations", "itertools.combinations",
                    "itertools.combinations_with_replacement") and args \
                and isinstance(args[0], (range, list, tuple)):
            import itertools as _it
            extra = [_as_int(a) for a in args[1:]] or (
                [_as_int(kwargs["r"])] if "r" in kwargs else [])
            out = list(getattr(_it, fsrc.split(".")[1])(list(args[0]), *extra))
            if len(out) > 4096:
                raise Unsupported("long iteration")
            return out
        if fsrc == "itertools.chain":
            return [x for a in args for x in a]
        if fsrc in ("collections.namedtuple", "namedtuple") and len(args) >= 2:
            fields = args[1].replace(",", " ").split() if isinstance(args[1], str) \
                else list(args[1])
            return _NTClass(args[0], fields)
        if fsrc == "np.ndindex" and all(isinstance(a, (int, Fraction)) for a in args):
            import itertools as _it
            return list(_it.product(*[range(_as_int(a)) for a in args]))
        if fsrc.startswith("np."):
            return self.np_call(fsrc[3:], args, kwargs, node)
        if fsrc.startswith("sp."):
            return self.sp_call(fsrc[3:], args, kwargs, node)
        # module-level functions of the module being interpreted (maths.py internals)
        if isinstance(node.func, ast.Name) and node.func.id not in env:
            fn = self.maths.get(node.func.id)
            if fn is not None and self.fn_stack and self.fn_stack[-1].startswith("maths."):
                if node.func.id == "safe_division":
                    return self.mul(self.to_arr(args[0]),
                                    self.recip(self.to_arr(args[1]), node), node)
                return self.call_function(fn, args, kwargs, "maths." + node.func.id, False,
                                          rel="maths.py")
        f = self.ev(node.func, env)
        if isinstance(f, _Builtin):
            return self.builtin(f.name, args, kwargs, node)
        if isinstance(f, _Closure):
            return self.call_function(f.fn, args, kwargs, f.name, False, rel=f.rel,
                                      closure=f.env)
        if isinstance(f, _Partial):
            return self.apply(f.f, list(f.args) + list(args), node, dict(f.kwargs, **kwargs))
        if isinstance(f, _Module) and f.name == "functools.partial" and args:
            return _Partial(args[0], args[1:], kwargs)
        if isinstance(f, _Module) and f.name == "operator.attrgetter" and args and all(
                isinstance(a, str) for a in args):
            return _Partial(_Module("operator.<attrs>"), [tuple(args)], {})
        if isinstance(f, _Module) and f.name.startswith("operator."):
            return self.operator_call(f.name[9:], args, node)
        if isinstance(f, _Module) and f.name == "math.prod" and args \
                and isinstance(args[0], (list, tuple)):
            acc = kwargs.get("start", 1)
            for x in args[0]:
                acc = self.binop(ast.Mult(), acc, x, node)
            return acc
        if isinstance(f, _Module) and f.name == "functools.reduce" and len(args) >= 2:
            seq = list(args[1])
            acc = args[2] if len(args) > 2 else seq.pop(0)
            for x in seq:
                acc = self.apply(args[0], [acc, x], node)
            return acc
        if isinstance(f, _NTClass):
            vals = list(args)
            for fld in f.fields[len(args):]:
                if fld not in kwargs:
                    raise Unsupported("namedtuple field " + fld + " missing")
                vals.append(kwargs[fld])
            if len(vals) != len(f.fields):
                raise Unsupported("namedtuple arity")
            return _NT(f, vals)
        if isinstance(f, _Module):
            # a method / library function held in a variable
            if f.name.startswith("self.fd."):
                return self.fd_call(f.name[8:], args, node)
            if f.name.startswith("np."):
                return self.np_call(f.name[3:], args, kwargs, node)
            if f.name.startswith("maths."):
                fn = self.maths.get(f.name[6:])
                if fn is not None:
                    return self.call_function(fn, args, kwargs, f.name, False, rel="maths.py")
            if f.name.startswith("self.") and f.name.count(".") == 1:
                fn = self.core.get(self.cls + "." + f.name[5:])
                if fn is not None:
                    return self.call_function(fn, args, kwargs, f.name[5:], True, rel=self.rel)
        if isinstance(f, _BoundMethod):
            return self.bound(f, args, kwargs, node)
        # module-level functions of the module being interpreted (maths.py internals)
        if isinstance(node.func, ast.Name):
            fn = self.maths.get(node.func.id)
            if fn is not None and self.fn_stack and self.fn_stack[-1].startswith("maths."):
                if node.func.id == "safe_division":
                    return self.mul(self.to_arr(args[0]),
                                    self.recip(self.to_arr(args[1]), node), node)
                return self.call_function(fn, args, kwargs, "maths." + node.func.id, False,
                                          rel="maths.py")
        raise Unsupported("call of " + fsrc)

    def builtin(self, name, args, kwargs, node):
        if name == "len":
            if isinstance(args[0], Arr):
                return args[0].shape[0]
            if not hasattr(args[0], "__len__"):
                raise Unsupported("len of " + type(args[0]).__name__)
            return len(args[0])
        if name == "range":
            return range(*[_as_int(a) for a in args])
        if name in ("float", "int"):
            v = args[0]
            if isinstance(v, (int, Fraction)):
                return int(v) if name == "int" else v
            return v
        if name == "abs":
            a = self.to_arr(args[0])
            return a.map(_abs)
        if name == "isinstance":
            return self.isinstance(args[0], node.args[1])
        if name in ("list", "tuple"):
            src = args[0].values if isinstance(args[0], _NT) else args[0] if args else ()
            if isinstance(src, Arr):
                if src.rank == 0:
                    raise Unsupported("iteration over a scalar")
                src = [self.index_arr(src, [i], node) for i in range(src.shape[0])]
            if not isinstance(src, (list, tuple, range, str, dict)):
                raise Unsupported(f"{name} of {type(src).__name__}")
            return list(src) if name == "list" else tuple(src)
        if name == "sum":
            tot = 0
            for x in args[0]:
                tot = self.binop(ast.Add(), tot, x, node)
            return tot
        if name == "str":
            return str(args[0])
        if name == "slice":
            return slice(*args)
        if name == "iter" and len(args) == 1 and isinstance(args[0], (list, tuple, range)):
            return list(args[0])        # a fresh list: consuming it leaves the sequence alone
        if name == "next":
            # generators are evaluated eagerly to lists (their elements have no effects here)
            # and next() consumes: only an iterator can be its argument, so the list is the
            # eager image of one and loses its first element
            if not isinstance(args[0], list):
                raise Unsupported("next of " + type(args[0]).__name__)
            if len(args[0]):
                return args[0].pop(0)
            if len(args) > 1:
                return args[1]
            raise Unsupported("next of an exhausted iterator")
        seqs = (list, tuple, range, str, dict, set, frozenset)
        if name in ("set", "frozenset", "sorted", "reversed", "enumerate", "zip", "dict",
                    "all", "any", "min", "max", "map") and not all(
                isinstance(a, seqs) or (name == "map" and i == 0)
                for i, a in enumerate(args)):
            if name in ("min", "max") and all(
                    isinstance(a, (int, Fraction)) and not isinstance(a, bool) for a in args):
                return min(args) if name == "min" else max(args)
            raise Unsupported(f"{name} of a symbolic value")
        if name in ("set", "frozenset"):
            return list(dict.fromkeys(_hashable(x) for x in (args[0] if args else ())))
        if name == "sorted":
            if kwargs:
                raise Unsupported("sorted with a key")
            return sorted(args[0])
        if name == "reversed":
            return list(reversed(list(args[0])))
        if name == "enumerate":
            return [(i + _as_int(args[1]) if len(args) > 1 else i, x)
                    for i, x in enumerate(args[0])]
        if name == "zip":
            return [tuple(t) for t in zip(*args)]
        if name == "dict":
            d = dict(args[0]) if args else {}
            d.update(kwargs)
            return d
        if name in ("all", "any"):
            vals = [self.truth(x, node) for x in args[0]]
            return all(vals) if name == "all" else any(vals)
        if name in ("min", "max"):
            vals = list(args[0]) if len(args) == 1 else list(args)
            if all(isinstance(a, (int, Fraction)) and not isinstance(a, bool) for a in vals):
                return min(vals) if name == "min" else max(vals)
            raise Unsupported(f"{name} of symbolic values")
        if name == "map":
            fnode = args[0]
            out = []
            for tup in zip(*args[1:]):
                out.append(self.apply(fnode, list(tup), node))
            return out
        if name == "bool":
            return self.truth(args[0], node)
        if name == "getattr" and len(args) >= 2 and isinstance(args[1], str):
            return self.get_attribute(args[0], args[1], args[2:], node)
        raise Unsupported("builtin " + name)

    def get_attribute(self, obj, name, default, node):
        if isinstance(obj, _Module) and "." in obj.name:
            return _Module(obj.name + "." + name)
        if isinstance(obj, _Module):
            return self.ev(ast.Attribute(value=ast.Name(id=obj.name, ctx=ast.Load()),
                                         attr=name, ctx=ast.Load()), {}) \
                if "." not in obj.name else _Module(obj.name + "." + name)
        if isinstance(obj, _NT) and name in obj.cls.fields:
            return obj.values[obj.cls.fields.index(name)]
        raise Unsupported("getattr of " + type(obj).__name__)

    _OPS = {"add": ast.Add, "sub": ast.Sub, "mul": ast.Mult, "truediv": ast.Div,
            "pow": ast.Pow, "iadd": ast.Add, "isub": ast.Sub, "imul": ast.Mult,
            "floordiv": ast.FloorDiv, "mod": ast.Mod}

    def operator_call(self, op, args, node):
        if op == "<attrs>" and len(args) == 2:
            vals = tuple(self.get_attribute(args[1], nm, (), node) for nm in args[0])
            return vals[0] if len(vals) == 1 else vals
        if op in self._OPS and len(args) == 2:
            return self.binop(self._OPS[op](), args[0], args[1], node)
        if op == "neg" and len(args) == 1:
            if isinstance(args[0], (int, Fraction)) and not isinstance(args[0], bool):
                return -args[0]
            return self.to_arr(args[0]).map(lambda p: -p)
        if op == "pos" and len(args) == 1:
            return args[0]
        raise Unsupported("operator." + op)

    def apply(self, f, args, node, kwargs=None):
        """Call a function value with already evaluated arguments."""
        kwargs = kwargs or {}
        if isinstance(f, _Closure):
            return self.call_function(f.fn, args, kwargs, f.name, False, rel=f.rel,
                                      closure=f.env)
        if isinstance(f, _Builtin):
            return self.builtin(f.name, args, kwargs, node)
        if isinstance(f, _BoundMethod):
            return self.bound(f, args, kwargs, node)
        if isinstance(f, _Partial):
            return self.apply(f.f, list(f.args) + list(args), node, dict(f.kwargs, **kwargs))
        if isinstance(f, _Module):
            if f.name.startswith("operator."):
                return self.operator_call(f.name[9:], args, node)
            if f.name == "np.einsum":
                return self.einsum_values(args, node)
            if f.name.startswith("np."):
                return self.np_call(f.name[3:], args, kwargs, node)
            if f.name.startswith("self.fd."):
                return self.fd_call(f.name[8:], args, node)
            if f.name.startswith("self.") and f.name.count(".") == 1:
                fn = self.core.get(self.cls + "." + f.name[5:])
                if fn is not None:
                    return self.call_function(fn, args, kwargs, f.name[5:], True, rel=self.rel)
            if f.name.startswith("maths."):
                fn = self.maths.get(f.name[6:])
                if fn is not None:
                    return self.call_function(fn, args, kwargs, f.name, False, rel="maths.py")
        raise Unsupported("call of a function value")

    def isinstance(self, v, tnode):
        names = [unparse(e) for e in tnode.elts] if isinstance(tnode, ast.Tuple) \
            else [unparse(tnode)]
        res = False
        for n in names:
            if n == "list":
                res = res or isinstance(v, list)
            elif n == "tuple":
                res = res or isinstance(v, tuple)
            elif n == "np.ndarray":
                res = res or isinstance(v, Arr)
            elif n == "int":
                res = res or (isinstance(v, int) and not isinstance(v, bool))
            elif n == "float":
                res = res or isinstance(v, Fraction)
            elif n == "str":
                res = res or isinstance(v, str)
            else:
                raise Unsupported("isinstance " + n)
        return res

    def bound(self, f, args, kwargs, node):
        o, a = f.obj, f.attr
        if isinstance(o, _NTClass) and a == "_make" and len(args) == 1:
            vals = args[0].values if isinstance(args[0], _NT) else args[0]
            if isinstance(vals, Arr):
                vals = [self.index_arr(vals, [i], node) for i in range(vals.shape[0])]
            if not isinstance(vals, (list, tuple)) or len(vals) != len(o.fields):
                raise Unsupported("namedtuple _make arity")
            return _NT(o, list(vals))
        if isinstance(o, _NT) and a == "_asdict":
            return dict(zip(o.cls.fields, o.values))
        if isinstance(o, _NT) and a == "_replace":
            vals = list(o.values)
            for k, v in kwargs.items():
                if k not in o.cls.fields:
                    raise Unsupported("namedtuple field " + k)
                vals[o.cls.fields.index(k)] = v
            return _NT(o.cls, vals)
        if isinstance(o, str):
            if a == "split":
                return o.split(*args)
            if a == "count":
                return o.count(*args)
            if a in ("startswith", "endswith"):
                return getattr(o, a)(*args)
            if a == "join" and len(args) == 1 and isinstance(args[0], (list, tuple)) \
                    and all(isinstance(x, str) for x in args[0]):
                return o.join(args[0])
            if a in ("replace", "strip", "lstrip", "rstrip", "upper", "lower", "partition",
                     "rpartition", "rsplit", "index", "find") and all(
                    isinstance(x, (str, int)) for x in args):
                r = getattr(o, a)(*args)
                return list(r) if isinstance(r, tuple) and a not in ("partition",
                                                                     "rpartition") else r
            if a == "format" and all(isinstance(x, (str, int)) and not isinstance(x, bool)
                                     for x in list(args) + list(kwargs.values())):
                return o.format(*args, **kwargs)
        if isinstance(o, dict):
            if a == "keys":
                return list(o.keys())
            if a == "items":
                return list(o.items())
            if a == "get":
                return o.get(*[_hashable(x) for x in args[:1]], *args[1:])
            if a == "values":
                return list(o.values())
        if isinstance(o, (list, tuple)):
            if a == "index":
                return list(o).index(args[0])
            if a == "count":
                return list(o).count(args[0])
            if a == "append" and isinstance(o, list):
                o.append(args[0])
                return None
            if a == "extend" and isinstance(o, list):
                o.extend(args[0])
                return None
            if a == "copy":
                return list(o)
        if isinstance(o, Arr):
            if a == "copy":
                return o.copy()
            if a in ("astype", "as_mutable", "as_immutable"):
                return o
            if a == "applyfunc":
                f = args[0] if args else None
                if isinstance(f, _Module) and f.name in ("sp.simplify", "sp.expand",
                                                         "sp.factor", "sp.nsimplify"):
                    return o.copy()
                raise Unsupported("applyfunc of an unknown function")
            if a in ("det", "inv"):
                full, det = self.matrix_inverse(o, node)
                if a == "det":
                    return Arr.scalar(full)
                n = o.shape[0]
                rdet = full.pow(-1)
                out = {}
                for i in range(n):
                    for j in range(n):
                        cof = det([r for r in range(n) if r != j],
                                  [c for c in range(n) if c != i])
                        if (i + j) % 2:
                            cof = -cof
                        p = cof * rdet
                        if not p.is_zero():
                            out[(i, j)] = p
                var = tuple({"u": "d", "d": "u"}.get(v) for v in o.var)
                return Arr((n, n), var, out)
        raise Unsupported(f"method {a} of {type(o).__name__}")

    # -- sympy (symbolic core) ----------------------------------------------------------------------
    def sp_call(self, name, args, kwargs, node):
        if name == "simplify":
            return args[0]
        if name == "diff":
            a = self.to_arr(args[0])
            r = a
            for ax in args[1:]:
                ax = _as_int(ax)
                r = r.map(lambda p, ax=ax: deriv(p, ax))
            return r
        if name == "MutableDenseNDimArray":
            if len(args) == 1:
                return self.to_arr(args[0]).copy()
            shp = tuple(_as_int(d) for d in args[1])
            return Arr(shp, None, {})
        if name == "tensorcontraction":
            a = self.to_arr(args[0])
            for pair in args[1:]:
                i, j = sorted(_as_int(x) for x in pair)
                if a.shape[i] != a.shape[j]:
                    self.problem("einsum-dimension", "tensorcontraction over slots of "
                                 f"different dimension {a.shape}", node)
                    raise Unsupported("contraction dims")
                if a.var[i] is not None and a.var[i] == a.var[j]:
                    self.problem("einsum-variance", f"tensorcontraction over slots {i},{j} "
                                 f"joins two {'upper' if a.var[i] == 'u' else 'lower'} "
                                 "indices", node)
                out = {}
                for idx, p in a.c.items():
                    if idx[i] == idx[j]:
                        k = tuple(x for n, x in enumerate(idx) if n not in (i, j))
                        out[k] = out[k] + p if k in out else p
                keep = [n for n in range(a.rank) if n not in (i, j)]
                a = Arr([a.shape[n] for n in keep], [a.var[n] for n in keep],
                        {k: v for k, v in out.items() if not v.is_zero()})
            return a
        if name == "Matrix":
            return self.to_arr(args[0])
        if name in ("sqrt", "exp", "log", "sin", "cos"):
            return self.np_call(name, args, kwargs, node)
        if name == "Rational":
            return Fraction(_as_int(args[0]), _as_int(args[1]))
        raise Unsupported("sp." + name)

    def matrix_inverse(self, a, node):
        n = a.shape[0]
        if a.rank != 2 or a.shape[1] != n:
            raise Unsupported("inverse of a non-square array")

        def det(rows, cols):
            if len(rows) == 1:
                return a.get((rows[0], cols[0]))
            tot = P()
            for j, c in enumerate(cols):
                term = a.get((rows[0], c)) * det(rows[1:], cols[:j] + cols[j + 1:])
                tot = tot + (term if j % 2 == 0 else -term)
            return tot
        full = det(list(range(n)), list(range(n)))
        return full, det

    # -- numpy -----------------------------------------------------------------------------------
    def np_call(self, name, args, kwargs, node):
        if name == "arange" and 1 <= len(args) <= 2 and not kwargs and all(
                isinstance(a, int) and not isinstance(a, bool) for a in args) \
                and abs(args[-1]) <= 64:
            return list(range(*args))       # an index list (used for fancy indexing / loops)
        if name in ("zeros", "ones"):
            shp = args[0]
            if shp == GRIDSHAPE or shp is GRID:
                dims = ()
            elif isinstance(shp, (tuple, list)):
                dims = tuple(_as_int(d) for d in shp if d != GRID)
                k = len(dims)
                if any(d == GRID for d in shp[:k]):
                    raise Unsupported("grid axis before tensor axes")
            else:
                raise Unsupported("shape of np." + name)
            val = P.const(1 if name == "ones" else 0)
            comps = {} if name == "zeros" else {
                idx: val for idx in itertools.product(*[range(d) for d in dims])}
            return Arr(dims, None, comps)
        if name == "zeros_like":
            a = self.to_arr(args[0])
            return Arr(a.shape, a.var, {})
        if name == "array":
            v = args[0]
            if isinstance(v, Arr):
                return v.copy()
            return self.to_arr(v)
        if name == "stack":
            ax = _as_int(kwargs.get("axis", args[1] if len(args) > 1 else 0))
            out = self.stack([self.to_arr(x) for x in args[0]], node)
            if ax < 0 or ax >= out.rank:
                raise Unsupported("np.stack along a grid axis")
            return self.move_axis(out, 0, ax)
        if name in ("append", "concatenate"):
            if name == "append":
                parts = [self.to_arr(args[0]), self.to_arr(args[1])]
            else:
                parts = [self.to_arr(x) for x in args[0]]
            ax = kwargs.get("axis", args[2] if name == "append" and len(args) > 2 else (
                args[1] if name == "concatenate" and len(args) > 1 else (
                    0 if name == "concatenate" else None)))
            if ax is None:
                raise Unsupported("flattening append")
            ax = _as_int(ax)
            if ax < 0 or any(ax >= q.rank for q in parts):
                raise Unsupported("concatenation along a grid axis")
            if ax == 0:
                return self.concat0(parts, node)
            moved = [self.move_axis(q, ax, 0) for q in parts]
            return self.move_axis(self.concat0(moved, node), 0, ax)
        if name == "expand_dims":
            a = self.to_arr(args[0])
            ax = _as_int(kwargs.get("axis", args[1] if len(args) > 1 else None))
            if ax < 0 or ax > a.rank:
                raise Unsupported("expand_dims on a grid axis")
            return Arr(a.shape[:ax] + (1,) + a.shape[ax:],
                       tuple(a.var[:ax]) + (None,) + tuple(a.var[ax:]),
                       {idx[:ax] + (0,) + idx[ax:]: v for idx, v in a.c.items()})
        if name == "moveaxis":
            a = self.to_arr(args[0])
            i, j = _as_int(args[1]), _as_int(args[2])
            if not (0 <= i < a.rank and 0 <= j < a.rank):
                raise Unsupported("moveaxis on grid axes")
            return self.move_axis(a, i, j, keep_owner=True)
        if name in ("sqrt", "exp", "log", "abs", "conj", "real", "imag", "sin", "cos",
                    "sign", "arccos"):
            a = self.to_arr(args[0])
            if name == "sqrt":
                return a.map(lambda p: p.pow(Fraction(1, 2)))
            if name == "abs":
                return a.map(_abs)
            return a.map(lambda p: _fn(name, p))
        if name == "shape":
            a = args[0]
            if isinstance(a, Arr):
                return tuple(a.shape) + GRIDSHAPE
            raise Unsupported("np.shape of non-array")
        if name == "delete":
            lst = list(args[0])
            idx = args[1]
            idx = [_as_int(i) for i in idx] if isinstance(idx, (list, tuple)) else \
                [_as_int(idx)]
            return [x for i, x in enumerate(lst) if i not in idx]
        if name == "copy":
            return self.to_arr(args[0]).copy()
        if name == "transpose":
            a = self.to_arr(args[0])
            perm = [_as_int(x) for x in args[1]] if len(args) > 1 else None
            if perm is None or any(p >= a.rank for p in perm[:a.rank]):
                raise Unsupported("transpose mixing grid axes")
            perm = perm[:a.rank]
            return Arr([a.shape[p] for p in perm], [a.var[p] for p in perm],
                       {tuple(idx[p] for p in perm): v for idx, v in a.c.items()},
                       owner=a.owner)
        if name == "swapaxes":
            a = self.to_arr(args[0])
            i, j = _as_int(args[1]), _as_int(args[2])
            if i >= a.rank or j >= a.rank:
                raise Unsupported("swapaxes on grid axes")
            perm = list(range(a.rank))
            perm[i], perm[j] = perm[j], perm[i]
            return Arr([a.shape[p] for p in perm], [a.var[p] for p in perm],
                       {tuple(idx[p] for p in perm): v for idx, v in a.c.items()},
                       owner=a.owner)
        if name == "where":
            raise Unsupported("np.where")
        raise Unsupported("np." + name)

    def move_axis(self, a, src, dst, keep_owner=False):
        """np.moveaxis on the tensor axes."""
        if src == dst:
            return a
        order = [k for k in range(a.rank) if k != src]
        order.insert(dst, src)
        return Arr([a.shape[p] for p in order], [a.var[p] for p in order],
                   {tuple(idx[p] for p in order): v for idx, v in a.c.items()},
                   owner=a.owner if keep_owner else None)

    def concat0(self, parts, node):
        rest = parts[0].shape[1:]
        var = parts[0].var[1:]
        out = {}
        off = 0
        for p in parts:
            if p.rank == 0 or p.shape[1:] != rest:
                self.problem("concat-shape", "concatenating shapes "
                             + ", ".join(str(q.shape) for q in parts), node)
                raise Unsupported("concat shapes")
            var, ok = unify_var(var, p.var[1:])
            if not ok:
                self.problem("concat-variance", "concatenated blocks differ in index "
                             "positions", node)
            for idx, v in p.c.items():
                out[(idx[0] + off,) + idx[1:]] = v
            off += p.shape[0]
        return Arr((off,) + rest, (parts[0].var[0] if len({q.var[0] for q in parts}) == 1
                                   else None,) + tuple(var), out)

    # -- finite differences ------------------------------------------------------------------------
    def fd_call(self, name, args, node):
        if name in ("d3x", "d3y", "d3z"):
            a = self.to_arr(args[0])
            if a.rank != 0:
                self.problem("fd-rank", f"fd.{name} applied to a rank-{a.rank} tensor "
                             "(it differentiates along a grid axis of a scalar field)", node)
                raise Unsupported("fd rank")
            ax = "xyz".index(name[2])
            return a.map(lambda p: deriv(p, ax))
        for n, r in (("scalar", 0), ("rank1tensor", 1), ("rank2tensor", 2),
                     ("rank3tensor", 3)):
            if name == "d3_" + n:
                a = self.to_arr(args[0])
                if a.rank != r:
                    self.problem("fd-rank", f"fd.{name} applied to a rank-{a.rank} tensor",
                                 node)
                    raise Unsupported("fd rank")
                parts = [a.map(lambda p, ax=ax: deriv(p, ax)) for ax in range(3)]
                out = self.stack(parts, node)
                out.var = ("d",) + tuple(a.var)
                return out
            for ax, letter in enumerate("xyz"):
                if name == f"d3{letter}_{n}" and r > 0:
                    a = self.to_arr(args[0])
                    if a.rank != r:
                        self.problem("fd-rank", f"fd.{name} applied to a rank-{a.rank} "
                                     "tensor", node)
                        raise Unsupported("fd rank")
                    return a.map(lambda p: deriv(p, ax))
        if name == "cartesian_to_spherical":
            raise Unsupported("spherical coordinates")
        raise Unsupported("fd." + name)

    # -- einsum ----------------------------------------------------------------------------------------
    def einsum(self, node, env):
        spec0 = None
        if node.args and isinstance(node.args[0], ast.Constant):
            spec0 = node.args[0].value
        elif node.args:
            try:
                spec0 = self.ev(node.args[0], env)
            except Unsupported as e:
                raise Unsupported(f"einsum with non-literal subscripts ({e})")
        return self.einsum_values([spec0] + self._elts(node.args[1:], env), node)

    def einsum_values(self, values, node):
        self.einsum_count += 1
        spec0 = values[0] if values else None
        if not isinstance(spec0, str):
            raise Unsupported("einsum with non-literal subscripts")
        spec = spec0.replace(" ", "")
        if "->" not in spec:
            raise Unsupported("implicit einsum output")
        ins, out = spec.split("->")
        ins = ins.split(",")
        ops = [self.to_arr(v) for v in values[1:]]
        if len(ins) != len(ops):
            self.problem("einsum-operands", f"'{spec}' names {len(ins)} operands, "
                         f"{len(ops)} given", node)
            raise Unsupported("einsum operand count")
        letters = []
        for s, a in zip(ins, ops):
            core = s.replace("...", "")
            if len(core) != a.rank:
                self.problem("einsum-rank", f"'{spec}': operand with subscripts '{core}' has "
                             f"rank {a.rank} (shape {a.shape})", node)
                raise Unsupported("einsum rank")
            letters.append(core)
        outl = out.replace("...", "")
        dim = {}
        occ = {}
        for core, a in zip(letters, ops):
            for pos, ch in enumerate(core):
                d = a.shape[pos]
                if dim.setdefault(ch, d) != d:
                    self.problem("einsum-dimension", f"'{spec}': index '{ch}' ranges over "
                                 f"{dim[ch]} and {d} values", node)
                    raise Unsupported("einsum dims")
                occ.setdefault(ch, []).append(a.var[pos])
        for ch in outl:
            if ch not in dim:
                self.problem("einsum-output", f"'{spec}': output index '{ch}' not in inputs",
                             node)
                raise Unsupported("einsum output")
        if len(set(outl)) != len(outl):
            raise Unsupported("repeated output index")
        outvar = []
        for ch, vs in occ.items():
            if ch in outl:
                known = {v for v in vs if v is not None}
                if len(known) > 1:
                    self.problem("einsum-variance", f"'{spec}': free index '{ch}' is upper in "
                                 "one operand and lower in another", node)
            else:
                if len(vs) == 1:
                    self.problem("einsum-dangling", f"'{spec}': index '{ch}' appears once "
                                 "and is not in the output: it is summed on its own, not "
                                 "contracted with anything", node)
                elif len(vs) > 2:
                    self.problem("einsum-multi", f"'{spec}': index '{ch}' appears "
                                 f"{len(vs)} times", node)
                else:
                    x, y = vs
                    if x is not None and y is not None and x == y:
                        self.problem("einsum-variance", f"'{spec}': contraction over '{ch}' "
                                     f"joins two {'upper' if x == 'u' else 'lower'} indices",
                                     node)
        for ch in outl:
            known = [v for v in occ[ch] if v is not None]
            outvar.append(known[0] if known else None)
        summed = [ch for ch in dim if ch not in outl]
        # evaluate: iterate over operand nonzero components (sparse join)
        result = {}
        order = list(range(len(ops)))

        def rec(k, assign, poly):
            if k == len(order):
                oidx = tuple(assign[ch] for ch in outl)
                r = result.get(oidx)
                result[oidx] = poly if r is None else r + poly
                return
            a = ops[order[k]]
            core = letters[order[k]]
            for idx, p in a.c.items():
                ok = True
                new = None
                for pos, ch in enumerate(core):
                    v = assign.get(ch) if new is None else new.get(ch, assign.get(ch))
                    if v is None:
                        if new is None:
                            new = {}
                        new[ch] = idx[pos]
                    elif v != idx[pos]:
                        ok = False
                        break
                if not ok:
                    continue
                if new:
                    a2 = dict(assign)
                    a2.update(new)
                else:
                    a2 = assign
                rec(k + 1, a2, p if poly is None else poly * p)
        rec(0, {}, None)
        del summed
        result = {k: v for k, v in result.items() if v is not None and not v.is_zero()}
        owner = ops[0].owner if len(ops) == 1 and len(outl) == len(letters[0]) else None
        return Arr([dim[ch] for ch in outl], outvar, result, owner=owner)


# ---------------------------------------------------------------------------------------------
# small helpers
# ---------------------------------------------------------------------------------------------
class _Return:
    def __init__(self, value):
        self.value = value


class _Break(Exception):
    pass


class _Continue(Exception):
    pass


class _Module:
    def __init__(self, name):
        self.name = name


class _Closure:
    """A function value: a def or lambda with the environment it was created in (late binding:
    the environment is consulted when the function is called)."""
    def __init__(self, fn, env, rel, name):
        self.fn, self.env, self.rel, self.name = fn, env, rel, name


class _Partial:
    def __init__(self, f, args, kwargs):
        self.f, self.args, self.kwargs = f, list(args), dict(kwargs)


class _NTClass:
    def __init__(self, name, fields):
        self.name, self.fields = name, list(fields)


class _NT:
    def __init__(self, cls, values):
        self.cls, self.values = cls, list(values)


_PENDING = object()


class _Builtin:
    def __init__(self, name):
        self.name = name


class _BoundMethod:
    def __init__(self, obj, attr):
        self.obj, self.attr = obj, attr


def _is_generator(fn):
    todo = list(fn.body)
    while todo:
        n = todo.pop()
        if isinstance(n, (ast.Yield, ast.YieldFrom)):
            return True
        if isinstance(n, (ast.FunctionDef, ast.Lambda, ast.ClassDef)):
            continue
        todo.extend(ast.iter_child_nodes(n))
    return False


def _load(target):
    import copy
    t = copy.deepcopy(target)
    for n in ast.walk(t):
        if hasattr(n, "ctx"):
            n.ctx = ast.Load()
    return t


def _as_int(v):
    if isinstance(v, bool):
        raise Unsupported("bool index")
    if isinstance(v, int):
        return v
    if isinstance(v, Fraction) and v.denominator == 1:
        return int(v)
    raise Unsupported(f"non-integer index {v!r}")


def _hashable(v):
    if isinstance(v, list):
        return tuple(v)
    return v


def _numeric_seq(a):
    return False


def _looks_int(node):
    """Was the constant written as an integer expression (no float literal, no true division)?"""
    for n in ast.walk(node):
        if isinstance(n, ast.Constant) and isinstance(n.value, float):
            return False
        if isinstance(n, ast.BinOp) and isinstance(n.op, ast.Div):
            return False
    return True


def _is_self_data(node):
    s = unparse(node)
    return s in ("self.data", "self.data.keys()", "list(self.data.keys())", "list(self.data)")


def _abs(p):
    if p.is_zero():
        return p
    if p.is_const():
        return P.const(abs(p.cval()))
    return P.atom("abs(" + repr(p) + ")")


def _fn(name, p):
    if name in ("conj", "real", "imag"):
        if "I" not in p.atoms():
            return p if name != "imag" else P()
        return P.atom(f"{name}(" + repr(p) + ")")
    if p.is_zero() and name in ("sin", "log"):
        if name == "sin":
            return p
    return P.atom(f"{name}(" + repr(p) + ")")


def _vs(var):
    return "(" + ",".join("?" if v is None else {"u": "up", "d": "down"}[v] for v in var) + ")"


# ---------------------------------------------------------------------------------------------
# driver: interpret a method under every configuration it asks about
# ---------------------------------------------------------------------------------------------
def interpret_all_configs(sources, method, base_config=None, args=(), max_configs=64,
                          options=None, overrides=None, interp_kw=None):
    """Yield (config, result | exception, interp) for every complete configuration reachable.
    Questions are discovered lazily (NeedConfig) and both answers explored."""
    options = options or {}
    todo = [dict(base_config or {})]
    done = 0
    while todo:
        cfg = todo.pop()
        it = Interp(sources, cfg, **(interp_kw or {}))
        it.overrides = dict(overrides or {})
        try:
            res = it.run_method(method, args)
        except NeedConfig as q:
            answers = options.get(q.q, (True, False))
            for a in answers:
                c2 = dict(cfg)
                c2[q.q] = a
                todo.append(c2)
            continue
        except (Unsupported, PathEnds) as e:
            res = e
        done += 1
        if done > max_configs:
            raise AnalysisError(f"{method}: more than {max_configs} configurations")
        yield cfg, res, it
