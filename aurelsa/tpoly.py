"""Polynomials with rational exponents over opaque atoms -- the value domain of the tensor
interpreter.  A monomial is a sorted tuple of (atom, exponent) pairs; coefficients are
Fractions.  Special atoms: '#p' (prime p, so that sqrt(2)*sqrt(2) folds to 2) and 'I'
(imaginary unit, I**2 folds to -1)."""
from __future__ import annotations

from fractions import Fraction


def _factor_int(n):
    out = {}
    p = 2
    while p * p <= n:
        while n % p == 0:
            out[p] = out.get(p, 0) + 1
            n //= p
        p += 1
    if n > 1:
        out[n] = out.get(n, 0) + 1
    return out


def _norm_mono(d, coef):
    """d: dict atom->Fraction exponent.  Fold integer powers of primes and of I."""
    out = {}
    for a, e in d.items():
        if e == 0:
            continue
        if a[0] == "#":
            p = int(a[1:])
            ip = e.__floor__()
            fr = e - ip
            if ip:
                coef *= Fraction(p) ** ip
            if fr:
                out[a] = fr
        elif a == "I":
            if e.denominator != 1:
                out[a] = e
                continue
            k = int(e) % 4
            if k >= 2:
                coef = -coef
            if k % 2:
                out[a] = Fraction(1)
        else:
            out[a] = e
    return tuple(sorted(out.items())), coef


OPAQUE = {}     # name of an opaque atom "(<poly>)" -> the polynomial it stands for


def _opaque(p):
    name = "(" + repr(p) + ")"
    OPAQUE[name] = p
    return name


class P:
    __slots__ = ("t",)

    def __init__(self, t=None):
        self.t = t if t is not None else {}

    # constructors
    @staticmethod
    def const(c):
        c = Fraction(c)
        return P({(): c} if c else {})

    @staticmethod
    def atom(name, exp=1):
        m, c = _norm_mono({name: Fraction(exp)}, Fraction(1))
        return P({m: c})

    def copy(self):
        return P(dict(self.t))

    def is_zero(self):
        return not self.t

    def is_const(self):
        return all(k == () for k in self.t)

    def cval(self):
        return self.t.get((), Fraction(0))

    def __add__(self, o):
        o = asP(o)
        if not o.t:
            return self
        if not self.t:
            return o
        t = dict(self.t)
        for k, v in o.t.items():
            nv = t.get(k, 0) + v
            if nv:
                t[k] = nv
            else:
                t.pop(k, None)
        return P(t)

    __radd__ = __add__

    def __neg__(self):
        return P({k: -v for k, v in self.t.items()})

    def __sub__(self, o):
        return self + (-asP(o))

    def __rsub__(self, o):
        return asP(o) - self

    def scale(self, c):
        c = Fraction(c)
        if not c:
            return P()
        return P({k: v * c for k, v in self.t.items()})

    def __mul__(self, o):
        o = asP(o)
        if not self.t or not o.t:
            return P()
        if len(o.t) == 1 and () in o.t:
            return self.scale(o.t[()])
        if len(self.t) == 1 and () in self.t:
            return o.scale(self.t[()])
        t = {}
        for k1, v1 in self.t.items():
            d1 = dict(k1)
            for k2, v2 in o.t.items():
                if not k2:
                    k, c = k1, v1 * v2
                elif not k1:
                    k, c = k2, v1 * v2
                else:
                    d = dict(d1)
                    for a, e in k2:
                        d[a] = d.get(a, 0) + e
                    k, c = _norm_mono(d, v1 * v2)
                nv = t.get(k, 0) + c
                if nv:
                    t[k] = nv
                else:
                    t.pop(k, None)
        return P(t)

    __rmul__ = __mul__

    def pow(self, e):
        e = Fraction(e)
        if e == 1:
            return self
        if e == 0:
            return P.const(1)
        if not self.t:
            return P()
        if len(self.t) == 1:
            (k, c), = self.t.items()
            d = {a: x * e for a, x in k}
            coef = Fraction(1)
            sign = 1
            if c < 0:
                if e.denominator != 1:
                    # (-x)**(p/q): keep the sign inside an opaque atom
                    return P.atom(_opaque(self), e)
                sign = -1 if int(e) % 2 else 1
                c = -c
            if e.denominator == 1:
                coef = c ** int(e)
            else:
                for p, n in _factor_int(c.numerator).items():
                    d["#%d" % p] = d.get("#%d" % p, 0) + n * e
                for p, n in _factor_int(c.denominator).items():
                    d["#%d" % p] = d.get("#%d" % p, 0) - n * e
            m, coef = _norm_mono(d, coef * sign)
            return P({m: coef})
        if e.denominator == 1 and 0 < e <= 8:
            r = P.const(1)
            for _ in range(int(e)):
                r = r * self
            return r
        return P.atom(_opaque(self), e)

    def __eq__(self, o):
        if isinstance(o, P):
            return self.t == o.t
        if isinstance(o, (int, Fraction)) and not isinstance(o, bool):
            return self.t == asP(o).t
        return False

    def __hash__(self):
        return hash(tuple(sorted(self.t.items())))

    def atoms(self):
        return {a for k in self.t for a, _ in k}

    def subs(self, mapping):
        """mapping: atom name -> P (only atoms with exponent +integer are substituted)."""
        r = P()
        for k, c in self.t.items():
            term = P.const(c)
            for a, e in k:
                if a in mapping and e.denominator == 1 and e > 0:
                    term = term * mapping[a].pow(e)
                else:
                    term = term * P.atom(a, e)
            r = r + term
        return r

    def __repr__(self):
        if not self.t:
            return "0"
        parts = []
        for k in sorted(self.t, key=lambda kk: [(a, float(e)) for a, e in kk]):
            c = self.t[k]
            mon = "*".join(a if e == 1 else f"{a}^{e}" for a, e in k)
            if mon:
                if c == 1:
                    parts.append(mon)
                elif c == -1:
                    parts.append("-" + mon)
                else:
                    parts.append(f"{c}*{mon}")
            else:
                parts.append(str(c))
        return " + ".join(parts).replace("+ -", "- ")


def asP(x):
    if isinstance(x, P):
        return x
    return P.const(x)


def const_pow(c, e):
    return P.const(c).pow(e)
