"""Triage helper (NOT part of any check): an independent numerical oracle used once, by hand,
to decide whether a report of the static rules is a genuine defect of aurel.

It builds a *stationary* spacetime with non-unit lapse, a shift with non-zero divergence and
a non-diagonal spatial metric (all low-degree polynomials, so 8th-order finite differences
are exact to round-off), computes the 4D metric, Christoffel symbols, Riemann, Ricci and Weyl
tensors from the textbook definitions (analytic first and second derivatives of g via sympy,
everything else pointwise linear algebra in numpy), and defines K_ij from
K_ij = (D_i beta_j + D_j beta_i - d_t gamma_ij) / (2 alpha) with d_t gamma = 0, and
T_mu_nu := (G_mu_nu + Lambda g_mu_nu) / kappa so that the data are an exact solution.
"""
import os
import sys

import numpy as np
import sympy as sp

sys.path.insert(0, os.environ.get("AUREL_SRC", "/repo/src"))


def grid(N=20, d=0.05, x0=0.1):
    return {'Nx': N, 'Ny': N, 'Nz': N, 'xmin': x0, 'ymin': x0 + 0.03, 'zmin': x0 - 0.02,
            'dx': d, 'dy': d, 'dz': d}


def stationary_spacetime(param, fd_order=8, Lambda=0.0, tdep=False):
    """Return (fd, fields) where fields holds numpy arrays of the exact 4D objects."""
    import aurel
    fd = aurel.FiniteDifference(param, boundary='no boundary', fd_order=fd_order,
                                verbose=False)
    t, x, y, z = sp.symbols('t x y z', real=True)
    X = [t, x, y, z]
    alpha = sp.Rational(13, 10) + x / 5 + y**2 / 10
    beta = [sp.Rational(1, 10) + y / 5 + x**2 / 10,
            z / 20 + x * y / 10,
            sp.Rational(3, 20) * x - z**2 / 10]
    gam = sp.Matrix([[1 + x**2 / 5, y / 10, z / 20],
                     [y / 10, sp.Rational(6, 5) + z**2 / 10, x / 10],
                     [z / 20, x / 10, sp.Rational(11, 10) + y**2 / 10]])
    if tdep:
        # time dependence (evaluated at t=0): used for dt-quantities
        alpha = alpha * (1 + t / 7)
        beta = [b * (1 + t / 5) for b in beta]
        gam = gam * (1 + t / 3) + sp.Matrix(3, 3, lambda i, j: t * x * y / 9 if i == j else 0)
    betad = [sum(gam[i, j] * beta[j] for j in range(3)) for i in range(3)]
    g = sp.zeros(4, 4)
    g[0, 0] = -alpha**2 + sum(beta[i] * betad[i] for i in range(3))
    for i in range(3):
        g[0, i + 1] = g[i + 1, 0] = betad[i]
        for j in range(3):
            g[i + 1, j + 1] = gam[i, j]
    subs0 = {t: 0}
    xs, ys, zs = fd.x, fd.y, fd.z
    shape = xs.shape

    def ev(expr):
        expr = sp.sympify(expr).subs(subs0)
        f = sp.lambdify((x, y, z), expr, 'numpy')
        return np.broadcast_to(np.asarray(f(xs, ys, zs), dtype=float), shape).copy()

    G = np.array([[ev(g[a, b]) for b in range(4)] for a in range(4)])
    dG = np.array([[[ev(sp.diff(g[a, b], X[c])) for b in range(4)] for a in range(4)]
                   for c in range(4)])  # dG[c,a,b] = d_c g_ab
    ddG = np.array([[[[ev(sp.diff(g[a, b], X[c], X[d])) for b in range(4)]
                      for a in range(4)] for c in range(4)] for d in range(4)])
    # ddG[d,c,a,b] = d_d d_c g_ab
    Gm = np.moveaxis(G, (0, 1), (-2, -1))
    Gup = np.moveaxis(np.linalg.inv(Gm), (-2, -1), (0, 1))
    # Gamma_{abc} = 1/2 (d_b g_ac + d_c g_ab - d_a g_bc)
    Gam_d = 0.5 * (np.einsum('bac...->abc...', dG) + np.einsum('cab...->abc...', dG)
                   - np.einsum('abc...->abc...', dG))
    Gam = np.einsum('ad...,dbc...->abc...', Gup, Gam_d)
    # derivative of Gamma_{abc}: dGam_d[e,a,b,c]
    dGam_d = 0.5 * (np.einsum('ebac...->eabc...', ddG) + np.einsum('ecab...->eabc...', ddG)
                    - np.einsum('eabc...->eabc...', ddG))
    dGup = -np.einsum('ab...,ebc...,cd...->ead...', Gup, dG, Gup)
    dGam = (np.einsum('ead...,dbc...->eabc...', dGup, Gam_d)
            + np.einsum('ad...,edbc...->eabc...', Gup, dGam_d))
    # R^a_{bcd} = d_c Gam^a_{bd} - d_d Gam^a_{bc} + Gam^a_{ce} Gam^e_{bd} - Gam^a_{de} Gam^e_{bc}
    Riem_u = (np.einsum('cabd...->abcd...', dGam) - np.einsum('dabc...->abcd...', dGam)
              + np.einsum('ace...,ebd...->abcd...', Gam, Gam)
              - np.einsum('ade...,ebc...->abcd...', Gam, Gam))
    Riem = np.einsum('ae...,ebcd...->abcd...', G, Riem_u)
    Ric = np.einsum('abad...->bd...', Riem_u)
    RicS = np.einsum('ab...,ab...->...', Gup, Ric)
    Ein = Ric - 0.5 * RicS * G
    kappa = 8 * np.pi
    T = (Ein + Lambda * G) / kappa
    Weyl = (Riem
            - 0.5 * (np.einsum('ac...,bd...->abcd...', G, Ric)
                     - np.einsum('ad...,bc...->abcd...', G, Ric)
                     - np.einsum('bc...,ad...->abcd...', G, Ric)
                     + np.einsum('bd...,ac...->abcd...', G, Ric))
            + (RicS / 6) * (np.einsum('ac...,bd...->abcd...', G, G)
                            - np.einsum('ad...,bc...->abcd...', G, G)))
    al = ev(alpha)
    bu = np.array([ev(b) for b in beta])
    gd = np.array([[ev(gam[i, j]) for j in range(3)] for i in range(3)])
    dtal = ev(sp.diff(alpha, t))
    dtbu = np.array([ev(sp.diff(b, t)) for b in beta])
    dtgd = np.array([[ev(sp.diff(gam[i, j], t)) for j in range(3)] for i in range(3)])
    # K_ij = -alpha Gamma^t_ij
    K = -al * Gam[0, 1:, 1:]
    fields = dict(alpha=al, betaup3=bu, gammadown3=gd, Kdown3=K, dtalpha=dtal,
                  dtbetaup3=dtbu, dtgammadown3=dtgd, g=G, gup=Gup, Gamma=Gam, Riemann=Riem,
                  Ricci=Ric, RicciS=RicS, Einstein=Ein, T=T, Weyl=Weyl, kappa=kappa,
                  Lambda=Lambda, sym=dict(t=t, x=x, y=y, z=z, alpha=alpha, beta=beta,
                                          gam=gam, g=g), ev=ev)
    return fd, fields


def core_for(fd, F, Lambda=0.0, **kw):
    import aurel
    rel = aurel.AurelCore(fd, verbose=False, Lambda=Lambda, **kw)
    rel.data['alpha'] = F['alpha']
    rel.data['dtalpha'] = F['dtalpha']
    rel.data['betaup3'] = F['betaup3']
    rel.data['dtbetaup3'] = F['dtbetaup3']
    rel.data['gammadown3'] = F['gammadown3']
    rel.data['Kdown3'] = F['Kdown3']
    rel.data['Tdown4'] = F['T']
    rel.freeze_data()
    return rel


def maxabs(a):
    return float(np.max(np.abs(a)))


def report(name, ok, detail):
    print(("PASS " if ok else "FAIL ") + name + ": " + detail)
    return 0 if ok else 1
