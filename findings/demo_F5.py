"""Triage demonstration for the known finding F5 (rho / rho0 / eps guard cycle).
FAIL = history-dependent value. Not part of any check."""
import os, sys
import numpy as np
sys.path.insert(0, os.environ.get("AUREL_SRC", "/repo/src"))
import aurel
p = {'Nx': 6, 'Ny': 6, 'Nz': 6, 'xmin': 0., 'ymin': 0., 'zmin': 0., 'dx': .1, 'dy': .1, 'dz': .1}
fd = aurel.FiniteDifference(p, verbose=False)
rho = np.where(fd.x < 0.25, 0.0, 1.0 + fd.x)      # vacuum region + matter region
def mk(**kw):
    r = aurel.AurelCore(fd, verbose=False, **kw); r.data['rho'] = rho; r.freeze_data(); return r
fresh = mk()["eps"]
rel = mk(clear_cache_every_nbr_calc=1)
rel["rho0"]            # computes eps (default 0, rho0 not cached yet) and rho0 = rho
rel["velx"]            # one unrelated calculation: eps (age 2) is evicted, rho0 (age 1) stays
if 'eps' in rel.data: del_note = "eps still cached"
else: del_note = "eps evicted"
again = rel["eps"] if 'eps' not in rel.data else None
state = sorted(k for k in rel.data if k in ('rho','rho0','eps'))
if again is None:
    print("INCONCLUSIVE", del_note, state); sys.exit(2)
ok = np.array_equal(again, fresh)
print(("PASS" if ok else "FAIL"), "F5 eps recomputed after eviction:", "min", again.min(), "vs fresh", fresh.min(), del_note)
sys.exit(0 if ok else 1)
