"""Triage demonstrations for the core.py findings (F1, F18, F2, F17, F3, F19, F4, F22, F23).
Run:  /venv/bin/python findings/demo_core.py [F1 F18 ...]   (AUREL_SRC selects the tree)
Each prints PASS when aurel agrees with the independent oracle and FAIL when it does not.
Not part of any check."""
import sys

import numpy as np

from _oracle import core_for, grid, maxabs, report, stationary_spacetime

TOL = 1e-7


def F1_F18():
    fd, F = stationary_spacetime(grid())
    rel = core_for(fd, F)
    G = rel["st_Gamma_udd4"]
    err = np.abs(G - F['Gamma']).reshape(4, 4, 4, -1).max(axis=-1)
    bad = [(a, b, c, float(err[a, b, c])) for a in range(4) for b in range(4)
           for c in range(4) if err[a, b, c] > TOL]
    rc = report("F1 Gamma^t_tt", err[0, 0, 0] < TOL, f"err={err[0,0,0]:.2e}")
    rc |= report("F18 Gamma^l_tm", all(err[l, 0, m] < TOL for l in (1, 2, 3)
                                        for m in (1, 2, 3)),
                 "max err=%.2e" % max(err[l, 0, m] for l in (1, 2, 3) for m in (1, 2, 3)))
    rc |= report("st_Gamma_udd4 all components", not bad, f"{len(bad)} wrong: {bad[:6]}")
    return rc


def F2():
    fd, F = stationary_spacetime(grid())
    rel = core_for(fd, F)
    x, y, z = fd.x, fd.y, fd.z
    vd = np.array([1 + x * y, 0.3 * z + x, y * y - x, 0.5 + z * x])  # covector v_mu
    dtv = np.zeros_like(vd)
    vu = np.einsum('ab...,b...->a...', F['gup'], vd)
    # oracle: nabla_a v_b = d_a v_b - Gamma^c_ab v_c ; d_t = 0 (stationary)
    dv = np.append(np.array([dtv]), fd.d3_rank1tensor(vd), axis=0)
    nab_d = dv - np.einsum('cab...,c...->ab...', F['Gamma'], vd)
    dvu = np.append(np.array([dtv]), fd.d3_rank1tensor(vu), axis=0)
    nab_u = dvu + np.einsum('bac...,c...->ab...', F['Gamma'], vu)
    # use the exact Gamma inside aurel so only the label logic is tested
    rel.data['st_Gamma_udd4'] = F['Gamma']
    rc = report("F2 st_covd 'd'", maxabs(rel.st_covd(vd, dtv, 'd') - nab_d) < TOL,
                "err=%.2e" % maxabs(rel.st_covd(vd, dtv, 'd') - nab_d))
    rc |= report("F2 st_covd 'u'", maxabs(rel.st_covd(vu, dtv, 'u') - nab_u) < TOL,
                 "err=%.2e" % maxabs(rel.st_covd(vu, dtv, 'u') - nab_u))
    return rc


def F17():
    import aurel
    fd, F = stationary_spacetime(grid())
    rel = aurel.AurelCore(fd, verbose=False)
    for k in ('alpha', 'betaup3', 'gammadown3', 'Kdown3'):
        rel.data[k] = F[k]
    rho0 = 1.0 + fd.x
    rel.data['rho0'] = rho0
    rel.data['press'] = 0.1 * rho0
    rel.data['eps'] = 0.2 * np.ones_like(rho0)
    rel.freeze_data()
    rho = rho0 * 1.2
    ud = rel["udown4"]
    T = rho * np.einsum('a...,b...->ab...', ud, ud) + 0.1 * rho0 * rel["hdown4"]
    return report("F17 Tdown4 = rho u_a u_b + p h_ab", maxabs(rel["Tdown4"] - T) < TOL,
                  "err=%.2e" % maxabs(rel["Tdown4"] - T))


def F3_F19():
    fd, F = stationary_spacetime(grid())
    rel = core_for(fd, F)
    R = rel["st_Riemann_down4"]
    rc = report("F26 st_Riemann_down4 vs oracle", maxabs(R - F['Riemann']) < 1e-6,
                "err=%.2e" % maxabs(R - F['Riemann']))
    Rcopy = R.copy()
    C = rel["st_Weyl_down4"]
    rc |= report("F3 cached Riemann unchanged by Weyl request",
                 maxabs(rel.data["st_Riemann_down4"] - Rcopy) == 0.0
                 and C is not rel.data["st_Riemann_down4"],
                 "delta=%.2e same_object=%s" % (maxabs(rel.data["st_Riemann_down4"] - Rcopy),
                                                C is rel.data["st_Riemann_down4"]))
    rc |= report("F19 Weyl (Riemann branch) vs oracle", maxabs(C - F['Weyl']) < 1e-6,
                 "err=%.2e" % maxabs(C - F['Weyl']))
    rel2 = core_for(fd, F)
    C2 = rel2["st_Weyl_down4"]
    rc |= report("Weyl (E/B branch) vs oracle", maxabs(C2 - F['Weyl']) < 1e-6,
                 "err=%.2e" % maxabs(C2 - F['Weyl']))
    return rc


def F4():
    import aurel
    fd, F = stationary_spacetime(grid())
    rc = 0
    for comps in (('betax', 'betay', 'betaz'), ('betay',), ('betaz',)):
        rel = aurel.AurelCore(fd, verbose=False)
        rel.data['gammadown3'] = F['gammadown3']
        rel.data['Kdown3'] = F['Kdown3']
        for i, k in enumerate(('betax', 'betay', 'betaz')):
            if k in comps:
                rel.data[k] = F['betaup3'][i]
        rel.freeze_data()
        K4 = rel.s_to_st(rel["Kdown3"])   # before anything caches betaup3
        b = rel["betaup3"]
        want00 = np.einsum('i...,j...,ij...->...', b, b, F['Kdown3'])
        rc |= report(f"F4 s_to_st with inputs {comps}", maxabs(K4[0, 0] - want00) < TOL,
                     "err=%.2e" % maxabs(K4[0, 0] - want00))
    return rc


def F22_F23():
    fd, F = stationary_spacetime(grid(), tdep=True)
    rel = core_for(fd, F)
    gup = np.moveaxis(np.linalg.inv(np.moveaxis(F['gammadown3'], (0, 1), (-2, -1))),
                      (-2, -1), (0, 1))
    dtgup = -np.einsum('ia...,ab...,bj...->ij...', gup, F['dtgammadown3'], gup)
    rc = report("F23 dtgammaup3 = d_t gamma^ij", maxabs(rel["dtgammaup3"] - dtgup) < 1e-6,
                "err=%.2e (value %.2e)" % (maxabs(rel["dtgammaup3"] - dtgup), maxabs(dtgup)))
    # d_t phi = (1/12) gamma^ij d_t gamma_ij
    dtphi = np.einsum('ij...,ij...->...', gup, F['dtgammadown3']) / 12
    rc |= report("F22 dtphi_bssnok = d_t phi", maxabs(rel["dtphi_bssnok"] - dtphi) < 1e-6,
                 "err=%.2e (value %.2e)" % (maxabs(rel["dtphi_bssnok"] - dtphi),
                                            maxabs(dtphi)))
    # controls
    Ktr = rel["Ktrace"]
    psi4 = rel["psi_bssnok"]**(-4)
    dtpsi4 = -4 * psi4 * dtphi
    dtgt = dtpsi4 * F['gammadown3'] + psi4 * F['dtgammadown3']
    rc |= report("control dtgammadown3_bssnok", maxabs(rel["dtgammadown3_bssnok"] - dtgt)
                 < 1e-6, "err=%.2e" % maxabs(rel["dtgammadown3_bssnok"] - dtgt))
    rc |= report("control Hamiltonian", maxabs(rel["Hamiltonian"]) < 1e-6,
                 "|H|=%.2e" % maxabs(rel["Hamiltonian"]))
    rc |= report("control Momentumup3", maxabs(rel["Momentumup3"]) < 1e-6,
                 "|M|=%.2e" % maxabs(rel["Momentumup3"]))
    return rc


ALL = {'F1': F1_F18, 'F18': F1_F18, 'F2': F2, 'F17': F17, 'F3': F3_F19, 'F19': F3_F19,
       'F4': F4, 'F26': F3_F19, 'F22': F22_F23, 'F23': F22_F23}

if __name__ == '__main__':
    names = sys.argv[1:] or list(ALL)
    done, rc = set(), 0
    for n in names:
        f = ALL[n]
        if f not in done:
            done.add(f)
            rc |= f()
    sys.exit(rc)
