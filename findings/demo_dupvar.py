"""Triage: one entry per requested iteration in every column, when 't' (always added by the
reader) or a duplicated name is requested explicitly (F31). Not part of any check."""
import os, sys, tempfile, shutil
import numpy as np
sys.path.insert(0, os.environ.get("AUREL_SRC", "/repo/src"))
from aurel import reading
d = tempfile.mkdtemp()
rc = 0
try:
    data = {'it': np.array([0, 1]), 't': [0.0, 0.1], 'rho': [np.ones((2, 2, 2)), 2 * np.ones((2, 2, 2))]}
    p = {'datapath': d + '/'}
    reading.save_data(p, data, it=[0, 1])
    for vars_ in (['rho', 't'], ['rho', 'rho']):
        back = reading.read_aurel_data(p, it=[0, 1], vars=list(vars_))
        lens = {k: len(v) for k, v in back.items()}
        ok = all(n == 2 for n in lens.values())
        rc |= 0 if ok else 1
        print(("PASS" if ok else "FAIL"), f"F31 vars={vars_}: column lengths {lens}")
finally:
    shutil.rmtree(d)
sys.exit(rc)
