"""Triage demonstration for F12 (grid point count with float steps). Not part of any check."""
import os, sys
import numpy as np
sys.path.insert(0, os.environ.get("AUREL_SRC", "/repo/src"))
from aurel.finitedifference import FiniteDifference
rc = 0
bad = []
tried = 0
for N in range(3, 40):
    for d in (0.1, 0.3, 1/3, 0.7, 0.05, 1.1):
        for x0 in (0.0, -0.5, 0.1, 1/3):
            tried += 1
            p = {'Nx': N, 'Ny': N, 'Nz': N, 'xmin': x0, 'ymin': x0, 'zmin': x0,
                 'dx': d, 'dy': d, 'dz': d}
            fd = FiniteDifference(p, verbose=False)
            ok = (fd.Nx == N and fd.x.shape == (N, N, N)
                  and abs(fd.xmax - (x0 + (N - 1) * d)) < 1e-12)
            if not ok:
                bad.append((N, d, x0, fd.Nx, float(fd.xmax)))
print(("PASS" if not bad else "FAIL"), f"F12 grid has N points ending at min+(N-1)d: "
      f"{len(bad)} of {tried} parameter sets wrong; first: {bad[:3]}")
sys.exit(1 if bad else 0)
