"""Triage demonstration for F27: Eulerian kinematics with a time-dependent lapse/shift/metric
(C19).  PASS/FAIL per identity.  Not part of any check."""
import sys
import numpy as np
from _oracle import grid, maxabs, report, stationary_spacetime
import aurel
rc = 0
fd, F = stationary_spacetime(grid(), tdep=True)
rel = aurel.AurelCore(fd, verbose=False)
for k in ('alpha', 'dtalpha', 'betaup3', 'dtbetaup3', 'gammadown3', 'Kdown3'):
    rel.data[k] = F[k]
rel.freeze_data()
n_u = rel["nup4"]
a = rel["accelerationdown4"]
dlna = fd.d3_scalar(np.log(F['alpha']))
# oracle: nabla_mu n_nu from exact Christoffels; n_nu = (-alpha,0,0,0); d_t n_0 = -dtalpha
nd = rel["ndown4"]
dn = np.zeros((4, 4) + nd.shape[1:])
dn[0, 0] = -F['dtalpha']
dn[1:, 0] = -fd.d3_scalar(F['alpha'])
nab = dn - np.einsum('cab...,c...->ab...', F['Gamma'], nd)
rc |= report("F27 st_covd_udown4 = nabla_mu n_nu (time-dependent lapse)",
             maxabs(rel["st_covd_udown4"] - nab) < 2e-6,
             "err=%.2e" % maxabs(rel["st_covd_udown4"] - nab))
rc |= report("F27 a.n = 0", maxabs(np.einsum('a...,a...->...', a, n_u)) < 2e-6,
             "max=%.2e" % maxabs(np.einsum('a...,a...->...', a, n_u)))
rc |= report("a_i = d_i ln alpha", maxabs(a[1:] - dlna) < 2e-6, "err=%.2e" % maxabs(a[1:] - dlna))
rc |= report("theta = -K", maxabs(rel["theta"] + rel["Ktrace"]) < 2e-6,
             "err=%.2e" % maxabs(rel["theta"] + rel["Ktrace"]))
A4 = rel.s_to_st(rel["Adown3"])
rc |= report("shear = -A", maxabs(rel["sheardown4"] + A4) < 2e-6,
             "err=%.2e" % maxabs(rel["sheardown4"] + A4))
rc |= report("omega = 0", maxabs(rel["omegadown4"]) < 2e-6, "max=%.2e" % maxabs(rel["omegadown4"]))
sys.exit(rc)
