"""Triage demonstration for F28: Momentumup3 guard on a cached (computed) component.
PASS = behaves like a fresh instance; FAIL = history-dependent failure. Not part of any check."""
import os, sys
import numpy as np
sys.path.insert(0, os.environ.get("AUREL_SRC", "/repo/src"))
import aurel
p = {'Nx': 8, 'Ny': 8, 'Nz': 8, 'xmin': 0., 'ymin': 0., 'zmin': 0., 'dx': .1, 'dy': .1, 'dz': .1}
fd = aurel.FiniteDifference(p, verbose=False)
x = fd.x
def inputs(rel):
    rel.data['gammadown3'] = np.array([[1 + x, 0 * x, 0 * x], [0 * x, 1 + 0 * x, 0 * x], [0 * x, 0 * x, 1 + 0 * x]])
    rel.data['Kdown3'] = np.array([[x * x, x, 0 * x], [x, 0 * x, 0 * x], [0 * x, 0 * x, 0 * x]])
    rel.freeze_data()
fresh = aurel.AurelCore(fd, verbose=False); inputs(fresh)
want = fresh["Momentumy"]
rel = aurel.AurelCore(fd, verbose=False, clear_cache_every_nbr_calc=1); inputs(rel)
rel["Momentumx"]
rel["Momentumdownx_norm" if False else "velx"]   # exactly one new calculation
state = sorted(k for k in rel.data if k.startswith('Momentum'))
try:
    got = rel["Momentumy"]
    ok = np.allclose(got, want)
    print(("PASS" if ok else "FAIL"), "F28 Momentumy after Momentumx (cache state before:", state, ")")
    sys.exit(0 if ok else 1)
except RecursionError as e:
    print("FAIL F28 Momentumy after Momentumx raises RecursionError (cache state before:", state, ")")
    sys.exit(1)
