"""Triage demonstrations for the reading.py findings (F6, F7, F16, F20, F8, F13, F21, F25).
Run: /venv/bin/python findings/demo_reading.py [F6 ...]; AUREL_SRC selects the tree.
PASS = behaves as the property says, FAIL = defect present. Not part of any check."""
import os
import shutil
import sys
import tempfile

import h5py
import numpy as np

sys.path.insert(0, os.environ.get("AUREL_SRC", "/repo/src"))
from aurel import reading  # noqa: E402


def report(name, ok, detail=""):
    print(("PASS " if ok else "FAIL ") + name + (": " + detail if detail else ""))
    return 0 if ok else 1


def F6():
    d = tempfile.mkdtemp()
    try:
        data = {'it': np.array([0]), 't': [0.0], 'rho': [np.ones((2, 2, 2))]}
        myvars = ['rho']
        reading.save_data({'datapath': d + '/'}, data, it=[0], vars=myvars)
        return report("F6 save_data leaves caller's vars list untouched", myvars == ['rho'],
                      f"vars after call = {myvars}")
    finally:
        shutil.rmtree(d)


def F7():
    d = tempfile.mkdtemp()
    try:
        data = {'it': np.array([0, 5, 10]), 't': [0.0, 0.5, 1.0],
                'rho': [np.full((2, 2, 2), float(i)) for i in (0, 5, 10)]}
        p = {'datapath': d + '/'}
        reading.save_data(p, data, it=[10], vars=['rho'])
        back = reading.read_aurel_data(p, it=[10], vars=['rho'])
        v = float(back['rho'][0][0, 0, 0])
        return report("F7 save_data(it=[10]) files the row of iteration 10", v == 10.0,
                      f"value stored for it=10 is {v}")
    finally:
        shutil.rmtree(d)


def F16():
    d = tempfile.mkdtemp()
    try:
        data = {'it': np.array([0, 1]), 't': [0.0, 0.1],
                'rho': [np.ones((2, 2, 2)), None]}
        p = {'datapath': d + '/'}
        try:
            reading.save_data(p, data, it=[0, 1], vars=['rho'])
        except Exception as e:  # noqa: BLE001
            return report("F16 None entries are skipped", False, f"raised {type(e).__name__}: {e}")
        back = reading.read_aurel_data(p, it=[0, 1], vars=['rho'])
        return report("F16 None entries are skipped",
                      back['rho'][0] is not None and back['rho'][1] is None)
    finally:
        shutil.rmtree(d)


def F20():
    d = tempfile.mkdtemp()
    try:
        data = {'it': np.array([0]), 't': [0.0], 'rho': [np.ones((2, 2, 2))]}
        p = {'datapath': d + '/sub'}  # no trailing slash
        reading.save_data(p, data, it=[0], vars=['rho'])
        back = reading.read_aurel_data(p, it=[0], vars=['rho'])
        return report("F20 read_aurel_data with datapath lacking the trailing slash",
                      back['rho'][0] is not None, f"rho[0] = {type(back['rho'][0]).__name__}")
    finally:
        shutil.rmtree(d)


def F8():
    full = np.arange(4 * 4 * 6, dtype=float).reshape(4, 4, 6)  # raw order (z, y, x)
    rc = 0
    # two chunks cut along x (raw axis 2)
    cut = {(0, 0, 0): full[:, :, :3], (3, 0, 0): full[:, :, 3:]}
    try:
        got = reading.join_chunks(dict(cut))
        ok = got.shape == full.shape and np.array_equal(got, full)
    except Exception as e:  # noqa: BLE001
        ok, got = False, e
    rc |= report("F8 two chunks cut along x", ok, f"shape {getattr(got, 'shape', got)}")
    # two chunks cut along z, enumerated upper first
    cut = {(0, 0, 2): full[2:], (0, 0, 0): full[:2]}
    got = reading.join_chunks(dict(cut))
    rc |= report("F8 two z-chunks enumerated in reverse", np.array_equal(got, full))
    # three chunks along y
    cut = {(0, 0, 0): full[:, :1], (0, 1, 0): full[:, 1:3], (0, 3, 0): full[:, 3:]}
    try:
        got = reading.join_chunks(dict(cut))
        ok = got.shape == full.shape and np.array_equal(got, full)
    except Exception as e:  # noqa: BLE001
        ok = False
    rc |= report("F8 three chunks cut along y", ok)
    # control: 4 chunks (general path)
    cut = {(3, 0, 0): full[:2, :, 3:], (0, 0, 0): full[:2, :, :3],
           (0, 0, 2): full[2:, :, :3], (3, 0, 2): full[2:, :, 3:]}
    got = reading.join_chunks(dict(cut))
    rc |= report("control: four chunks", np.array_equal(got, full))
    return rc


def make_sim(root, simname, restarts, files_of):
    """files_of(restart) -> {filename: [(key, array, iorigin)]}"""
    for r in restarts:
        dd = os.path.join(root, simname, f'output-{r:04d}', simname)
        os.makedirs(dd)
        open(os.path.join(root, simname, f'output-{r:04d}', simname + '.par'), 'w').write(
            'CoordBase::xmin = 0\nCoordBase::xmax = 1\nCoordBase::dx = 0.25\n'
            'CoordBase::ymin = 0\nCoordBase::ymax = 1\nCoordBase::dy = 0.25\n'
            'CoordBase::zmin = 0\nCoordBase::zmax = 1\nCoordBase::dz = 0.25\n')
        for fn, dsets in files_of(r).items():
            with h5py.File(os.path.join(dd, fn), 'w') as f:
                for key, arr, org, time in dsets:
                    ds = f.create_dataset(key, data=arr)
                    ds.attrs['cctk_nghostzones'] = np.array([1, 1, 1])
                    ds.attrs['iorigin'] = np.array(org)
                    ds.attrs['time'] = time
    return {'simpath': root + '/', 'simname': simname, 'simulation': 'ET'}


def F13():
    root = tempfile.mkdtemp()
    try:
        name = 'my_restart_run'

        def files_of(r):
            return {'alp.h5': [(f'ADMBASE::alp it={r*2+i} tl=0 rl=0', np.ones((4, 4, 4)),
                                (0, 0, 0), 0.1 * (r * 2 + i)) for i in range(2)]}
        p = make_sim(root, name, [0, 1], files_of)
        a = reading.iterations(p, skip_last=False, verbose=False)
        try:
            b = reading.iterations(p, skip_last=False, verbose=False)
        except Exception as e:  # noqa: BLE001
            return report("F13 second iterations() call, simulation named my_restart_run",
                          False, f"raised {type(e).__name__}: {e}")
        return report("F13 second iterations() call, simulation named my_restart_run",
                      sorted(k for k in a if k != 'overall')
                      == sorted(k for k in b if k != 'overall'))
    finally:
        shutil.rmtree(root)


def F21():
    root = tempfile.mkdtemp()
    try:
        def files_of(r):
            return {'alp.file_0.h5': [('ADMBASE::alp it=0 tl=0 rl=0 c=0',
                                       np.arange(64.).reshape(4, 4, 4), (0, 0, 0), 0.0)]}
        p = make_sim(root, 'oneproc', [0], files_of)
        try:
            d = reading.read_ET_data(p, it=[0], vars=['alpha'], restart=0,
                                     split_per_it=False, skip_last=False, verbose=False)
        except Exception as e:  # noqa: BLE001
            return report("F21 one process, one file per process", False,
                          f"raised {type(e).__name__}: {e}")
        return report("F21 one process, one file per process",
                      d['alpha'][0].shape == (2, 2, 2))
    finally:
        shutil.rmtree(root)


def F25():
    root = tempfile.mkdtemp()
    try:
        def files_of(r):
            if r == 0:
                return {'alp.h5': [(f'ADMBASE::alp it={i} tl=0 rl=0', np.ones((4, 4, 4)),
                                    (0, 0, 0), 0.1 * i) for i in (0, 1)]}
            # restart 1: only a NaNmask single-variable file
            return {'NaNmask.h5': [(f'NANCHECKER::NaNmask it={i} tl=0 rl=0',
                                    np.ones((4, 4, 4)), (0, 0, 0), 0.1 * i) for i in (2, 3)]}
        p = make_sim(root, 'sim', [0, 1], files_of)
        # a checkpoint in restart 1, so that the restart has something to catalogue
        with h5py.File(os.path.join(root, 'sim', 'output-0001', 'sim',
                                    'checkpoint.chkpt.it_2.h5'), 'w'):
            pass
        try:
            a = reading.iterations(p, skip_last=False, verbose=False)
        except Exception as e:  # noqa: BLE001
            return report("F25 restart whose only single-variable file is NaNmask", False,
                          f"raised {type(e).__name__}: {e}")
        got = a[1].get('its available')
        return report("F25 restart 1 is not catalogued from restart 0's file",
                      got is None or list(got) != [0, 1],
                      f"restart 1 'its available' = {got} (restart 0 has [0, 1])")
    finally:
        shutil.rmtree(root)


ALL = dict(F6=F6, F7=F7, F16=F16, F20=F20, F8=F8, F13=F13, F21=F21, F25=F25)
if __name__ == '__main__':
    rc = 0
    for n in (sys.argv[1:] or list(ALL)):
        try:
            rc |= ALL[n]()
        except Exception as e:  # noqa: BLE001
            import traceback
            traceback.print_exc()
            rc |= report(n + " (demo crashed)", False, repr(e))
    sys.exit(rc)
