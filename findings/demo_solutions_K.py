"""Triage: K_ij returned by each bundled solution vs -(1/(2 alpha)) d_t gamma_ij (zero shift), by a
4th-order time difference of the module's own gammadown3.  Not part of any check."""
import os, sys, importlib
import numpy as np
sys.path.insert(0, os.environ.get("AUREL_SRC", "/repo/src"))
import aurel
p = {'Nx': 6, 'Ny': 6, 'Nz': 6, 'xmin': 0.3, 'ymin': 0.4, 'zmin': 0.5, 'dx': .2, 'dy': .2, 'dz': .2}
fd = aurel.FiniteDifference(p, verbose=False)
x, y, z = fd.x, fd.y, fd.z
rc = 0
for name, t0 in (("EdS", 1.5), ("LCDM", 1.5), ("Szekeres", 1.5), ("Non_diagonal", 1.5), ("Rosquist_Jantzen", 1.5),
                 ("Collins_Stewart", 1.5), ("Harvey_Tsoubelis", 1.5)):
    m = importlib.import_module("aurel.solutions." + name)
    h = 1e-3 * t0
    g = lambda t: np.asarray(m.gammadown3(t, x, y, z), dtype=float)
    dtg = (-g(t0 + 2*h) + 8*g(t0 + h) - 8*g(t0 - h) + g(t0 - 2*h)) / (12*h)
    al = m.alpha(t0, x, y, z) if hasattr(m, "alpha") else 1.0
    want = -dtg / (2 * al)
    got = np.asarray(m.Kdown3(t0, x, y, z), dtype=float)
    err = np.max(np.abs(got - want)) / max(np.max(np.abs(want)), 1e-30)
    ok = err < 1e-6
    rc |= 0 if ok else 1
    print(("PASS" if ok else "FAIL"), name, "rel.err=%.2e" % err)
sys.exit(rc)
