"""Triage demonstrations for coresymbolic.py (F9, F10, F11, F24). Not part of any check."""
import os, sys
import sympy as sp
sys.path.insert(0, os.environ.get("AUREL_SRC", "/repo/src"))
from aurel.coresymbolic import AurelCoreSymbolic

x, y, z = sp.symbols('x y z', real=True)
X = [x, y, z]
g = sp.Matrix([[1 + x**2, x*y, 0], [x*y, 1 + y**2, z], [0, z, 2 + x]])
n = 3
gi = g.inv()
Gam = [[[sum(gi[i, m]*(sp.diff(g[m, k], X[j]) + sp.diff(g[m, j], X[k]) - sp.diff(g[j, k], X[m]))
             for m in range(n))/2 for k in range(n)] for j in range(n)] for i in range(n)]
Riem_u = [[[[sp.diff(Gam[i][j][h], X[k]) - sp.diff(Gam[i][j][k], X[h])
             + sum(Gam[i][k][m]*Gam[m][j][h] - Gam[i][h][m]*Gam[m][j][k] for m in range(n))
             for h in range(n)] for k in range(n)] for j in range(n)] for i in range(n)]
Riem_d = [[[[sum(g[i, m]*Riem_u[m][j][k][h] for m in range(n)) for h in range(n)]
            for k in range(n)] for j in range(n)] for i in range(n)]
Ric = [[sum(Riem_u[k][i][k][j] for k in range(n)) for j in range(n)] for i in range(n)]
pt = {x: sp.Rational(3, 10), y: sp.Rational(-7, 10), z: sp.Rational(1, 2)}

def num(e):
    return float(sp.sympify(e).subs(pt))

def maxerr(A, B, rank):
    import itertools
    e = 0.0
    for idx in itertools.product(range(n), repeat=rank):
        a, b = A, B
        for i in idx:
            b = b[i]
        e = max(e, abs(num(A[idx]) - num(b)))
    return e

def report(name, ok, detail=""):
    print(("PASS " if ok else "FAIL ") + name + (": " + detail if detail else ""))
    return 0 if ok else 1

rc = 0
for simp in (True, False):
    def fresh():
        s = AurelCoreSymbolic(X, verbose=False, simplify=simp)
        s.data['gdown'] = g
        return s
    s = fresh()
    rc |= report(f"F9 Gamma_udd simplify={simp}", maxerr(s["Gamma_udd"], Gam, 3) < 1e-12,
                 "err=%.2e" % maxerr(s["Gamma_udd"], Gam, 3))
    s = fresh(); s.data['Gamma_udd'] = sp.MutableDenseNDimArray(Gam)
    rc |= report(f"F10 Riemann_uddd simplify={simp}", maxerr(s["Riemann_uddd"], Riem_u, 4) < 1e-12,
                 "err=%.2e" % maxerr(s["Riemann_uddd"], Riem_u, 4))
    s = fresh(); s.data['Gamma_udd'] = sp.MutableDenseNDimArray(Gam)
    rc |= report(f"F11 Ricci_down direct simplify={simp}", maxerr(s["Ricci_down"], Ric, 2) < 1e-12,
                 "err=%.2e" % maxerr(s["Ricci_down"], Ric, 2))
    s = fresh(); s.data['Gamma_udd'] = sp.MutableDenseNDimArray(Gam)
    rc |= report(f"F24 Riemann_down direct simplify={simp}", maxerr(s["Riemann_down"], Riem_d, 4) < 1e-12,
                 "err=%.2e" % maxerr(s["Riemann_down"], Riem_d, 4))
    s = fresh(); s.data['Gamma_udd'] = sp.MutableDenseNDimArray(Gam)
    s.data['Riemann_uddd'] = sp.MutableDenseNDimArray(Riem_u)
    rc |= report(f"Riemann_down from uddd simplify={simp}", maxerr(s["Riemann_down"], Riem_d, 4) < 1e-12,
                 "err=%.2e" % maxerr(s["Riemann_down"], Riem_d, 4))
    rc |= report(f"Ricci_down from uddd simplify={simp}", maxerr(s["Ricci_down"], Ric, 2) < 1e-12)
sys.exit(rc)
