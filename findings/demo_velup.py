"""Triage: lowered Eulerian velocity when the velocity is supplied as the vector velup3 (F30).
Not part of any check."""
import os, sys
import numpy as np
sys.path.insert(0, os.environ.get("AUREL_SRC", "/repo/src"))
import aurel
p = {'Nx': 6, 'Ny': 6, 'Nz': 6, 'xmin': 0., 'ymin': 0., 'zmin': 0., 'dx': .1, 'dy': .1, 'dz': .1}
fd = aurel.FiniteDifference(p, verbose=False)
x = fd.x
g = np.array([[1 + x, 0.1 + 0 * x, 0 * x], [0.1 + 0 * x, 2 + 0 * x, 0 * x], [0 * x, 0 * x, 1.5 + 0 * x]])
v = np.array([0.2 + 0 * x, 0.1 * x, -0.1 + 0 * x])
rel = aurel.AurelCore(fd, verbose=False)
rel.data['gammadown3'] = g
rel.data['velup3'] = v
rel.freeze_data()
want = np.einsum('ij...,j...->i...', g, v)
got = rel["veldown3"]
err = float(np.max(np.abs(got - want)))
print(("PASS" if err < 1e-12 else "FAIL"), "F30 veldown3 = gamma_ij v^j with velup3 supplied: err=%.3g (|want|=%.3g)" % (err, np.max(np.abs(want))))
sys.exit(0 if err < 1e-12 else 1)
