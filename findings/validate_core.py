"""Triage only (not part of any check): broad comparison of AurelCore quantities with the
independent oracle on a time-dependent, shifted, non-diagonal exact solution (T := G/kappa).
Used to validate the reference term tables of the static rules before arming them."""
import sys

import numpy as np

from _oracle import core_for, grid, maxabs, report, stationary_spacetime

TOL = 2e-6


def inv3(g):
    return np.moveaxis(np.linalg.inv(np.moveaxis(g, (0, 1), (-2, -1))), (-2, -1), (0, 1))


def main():
    rc = 0
    Lam = 0.3
    fd, F = stationary_spacetime(grid(), tdep=True, Lambda=Lam)
    rel = core_for(fd, F, Lambda=Lam)
    g, gup, al, b, gd, K = F['g'], F['gup'], F['alpha'], F['betaup3'], F['gammadown3'], \
        F['Kdown3']
    gu3 = inv3(gd)

    def cmp(name, got, want, tol=TOL):
        nonlocal rc
        e = maxabs(np.asarray(got) - np.asarray(want))
        rc |= report(name, e < tol, "err=%.2e (|want|=%.2e)" % (e, maxabs(want)))

    cmp("gdown4", rel["gdown4"], g)
    cmp("gup4", rel["gup4"], gup)
    cmp("gdet", rel["gdet"], np.linalg.det(np.moveaxis(g, (0, 1), (-2, -1))))
    cmp("st_Gamma_udd4", rel["st_Gamma_udd4"], F['Gamma'])
    cmp("st_Riemann_down4", rel["st_Riemann_down4"], F['Riemann'])
    cmp("st_Riemann_uddd4", rel["st_Riemann_uddd4"],
        np.einsum('ae...,ebcd...->abcd...', gup, F['Riemann']))
    cmp("Kretschmann", rel["Kretschmann"],
        np.einsum('abcd...,ae...,bf...,cg...,dh...,efgh...->...', F['Riemann'], gup, gup, gup,
                  gup, F['Riemann']), 1e-5)
    cmp("st_Ricci_down4 (from T)", rel["st_Ricci_down4"], F['Ricci'])
    cmp("st_RicciS", rel["st_RicciS"], F['RicciS'])
    cmp("Einsteindown4", rel["Einsteindown4"], F['Einstein'])
    cmp("st_Weyl_down4", rel["st_Weyl_down4"], F['Weyl'])
    # Ricci from Riemann contraction (no Tdown4 in data)
    rel2 = core_for(fd, F, Lambda=Lam)
    del rel2.data['Tdown4']
    rel2.data['st_Ricci_down3'] = F['Ricci'][1:, 1:]
    rel2.freeze_data()
    cmp("st_Ricci_down4 (contraction)", rel2["st_Ricci_down4"], F['Ricci'])
    # constraints and dt
    cmp("Hamiltonian", rel["Hamiltonian"], 0 * al)
    cmp("Momentumup3", rel["Momentumup3"], 0 * b)
    cmp("rho_n_fromHam", rel["rho_n_fromHam"], rel["rho_n"])
    cmp("fluxup3_n_fromMom", rel["fluxup3_n_fromMom"], rel["fluxup3_n"])
    dtg = F['dtgammadown3']
    dtgu = -np.einsum('ia...,ab...,bj...->ij...', gu3, dtg, gu3)
    cmp("dtgammaup3", rel["dtgammaup3"], dtgu)
    dtphi = np.einsum('ij...,ij...->...', gu3, dtg) / 12
    cmp("dtphi_bssnok", rel["dtphi_bssnok"], dtphi)
    psim4 = rel["psi_bssnok"]**(-4)
    cmp("dtgammadown3_bssnok", rel["dtgammadown3_bssnok"],
        -4 * psim4 * dtphi * gd + psim4 * dtg)
    # K_ij consistency: K = -(dtg - L_beta g)/(2 alpha)
    Lbg = rel.Lie_beta(gd, 's_dd')
    cmp("Kdown3 = -(dt gamma - L_beta gamma)/(2 alpha)", K, -(dtg - Lbg) / (2 * al))
    # normal, projections
    n_u, n_d = rel["nup4"], rel["ndown4"]
    cmp("n.n = -1", np.einsum('a...,a...->...', n_u, n_d), -1 + 0 * al)
    cmp("ndown4 = g nup4", np.einsum('ab...,b...->a...', g, n_u), n_d)
    T = F['T']
    cmp("rho_n", rel["rho_n"], np.einsum('ab...,a...,b...->...', T, n_u, n_u))
    P = np.einsum('ac...,cb...->ab...', gup, g) + np.einsum('a...,b...->ab...', n_u, n_d)
    S_u = -np.einsum('ab...,bc...,c...->a...',
                     gup + np.einsum('a...,b...->ab...', n_u, n_u), T, n_u)
    cmp("fluxup3_n", rel["fluxup3_n"], S_u[1:])
    cmp("Stressdown3_n", rel["Stressdown3_n"], T[1:, 1:])
    cmp("Stresstrace_n", rel["Stresstrace_n"], np.einsum('ij...,ij...->...', gu3, T[1:, 1:]))
    cmp("Ttrace (branch Tdown4)", rel["Ttrace"], np.einsum('ab...,ab...->...', gup, T))
    cmp("3 p_n - rho_n = Ttrace", 3 * rel["press_n"] - rel["rho_n"],
        np.einsum('ab...,ab...->...', gup, T))
    # E and B in the normal frame
    C = F['Weyl']
    E4 = np.einsum('b...,d...,abcd...->ac...', n_u, n_u, C)
    cmp("eweyl_n_down3", rel["eweyl_n_down3"], E4[1:, 1:])
    eps4 = rel.levicivita_down4()
    Cdual = 0.5 * np.einsum('abef...,eg...,fh...,ghcd...->abcd...', eps4, gup, gup, C)
    B4 = np.einsum('b...,d...,abcd...->ac...', n_u, n_u, Cdual)
    e1 = maxabs(rel["bweyl_n_down3"] - B4[1:, 1:])
    e2 = maxabs(rel["bweyl_n_down3"] + B4[1:, 1:])
    rc |= report("bweyl_n_down3 (up to dual sign convention)", min(e1, e2) < TOL,
                 "err(+)=%.2e err(-)=%.2e" % (e1, e2))
    # spatial curvature vs 3D oracle built with FD of exact Christoffels is circular; use Gauss
    cmp("Gauss: R_ssss", rel["s_Riemann_down3"]
        + np.einsum('ac...,bd...->abcd...', K, K) - np.einsum('ad...,bc...->abcd...', K, K),
        F['Riemann'][1:, 1:, 1:, 1:])
    # BSSN Ricci split
    cmp("s_Ricci_down3 = bssnok + phi", rel["s_Ricci_down3_bssnok"] + rel["s_Ricci_down3_phi"],
        rel["s_Ricci_down3"], 1e-5)
    return rc


if __name__ == '__main__':
    sys.exit(main())
