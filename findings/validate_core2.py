"""Triage only: stationary exact solution -> every dt-quantity must vanish; Eulerian kinematics
identities (C19) with the default fluid state."""
import sys
import numpy as np
from _oracle import core_for, grid, maxabs, report, stationary_spacetime
rc = 0
Lam = 0.2
fd, F = stationary_spacetime(grid(), tdep=False, Lambda=Lam)
rel = core_for(fd, F, Lambda=Lam)
for k in ("dtKtrace", "dtphi_bssnok", "dtgammaup3", "dtgammadown3_bssnok", "dtAdown3_bssnok",
          "dts_Gamma_bssnok"):
    rc |= report(k + " = 0 (stationary)", maxabs(rel[k]) < 2e-6, "max=%.2e" % maxabs(rel[k]))
# kinematics with default fluid (u = n); drop T so that rho=0 etc.
import aurel
rel = aurel.AurelCore(fd, verbose=False)
for k in ('alpha', 'dtalpha', 'betaup3', 'dtbetaup3', 'gammadown3', 'Kdown3'):
    rel.data[k] = F[k]
rel.freeze_data()
rc |= report("uup4 = nup4", maxabs(rel["uup4"] - rel["nup4"]) < 1e-12, "")
rc |= report("theta = -K", maxabs(rel["theta"] + rel["Ktrace"]) < 2e-6,
             "err=%.2e" % maxabs(rel["theta"] + rel["Ktrace"]))
A4 = rel.s_to_st(rel["Adown3"])
rc |= report("shear = -A", maxabs(rel["sheardown4"] + A4) < 2e-6,
             "err=%.2e" % maxabs(rel["sheardown4"] + A4))
rc |= report("omega = 0", maxabs(rel["omegadown4"]) < 2e-6, "max=%.2e" % maxabs(rel["omegadown4"]))
a = rel["accelerationdown4"]
dlna = fd.d3_scalar(np.log(F['alpha']))
rc |= report("a_i = d_i ln alpha", maxabs(a[1:] - dlna) < 2e-6, "err=%.2e" % maxabs(a[1:] - dlna))
rc |= report("a.n = 0", maxabs(np.einsum('a...,a...->...', a, rel["nup4"])) < 2e-6,
             "max=%.2e" % maxabs(np.einsum('a...,a...->...', a, rel["nup4"])))
sys.exit(rc)
