#!/venv/bin/python
"""Print the canonical form of a function under a patch: canon_dump.py <patch.diff|-> <rel> <qualname>"""
import ast, os, shutil, subprocess, sys, tempfile
sys.path.insert(0, os.path.dirname(os.path.dirname(os.path.abspath(__file__))))
patch, rel, qual = sys.argv[1:4]
tmp = tempfile.mkdtemp(prefix="aurelsa_dump_")
try:
    shutil.copytree("/repo/src", os.path.join(tmp, "src"))
    if patch != "-":
        subprocess.run(["git", "init", "-q"], cwd=tmp, check=True)
        subprocess.run(["git", "apply", "--whitespace=nowarn", os.path.abspath(patch)], cwd=tmp, check=True)
    os.environ["AUREL_REPO"] = tmp
    from aurelsa.common import Sources
    import inspect
    try:
        S = Sources(os.path.join(tmp, "src", "aurel"))
    except TypeError:
        S = Sources()
    print(ast.unparse(S.function(rel, qual)))
finally:
    shutil.rmtree(tmp, ignore_errors=True)
