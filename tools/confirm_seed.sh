#!/bin/bash
# confirm_seed.sh <dir with patch.diff + demo.py> : confirm a seeded change in a scratch worktree of /repo HEAD:
#   1. patch applies; 2. baseline suite still 510/510 with it; 3. demo exits !=0 with it, 0 without it.
# Prints one summary line; removes the worktree.
d="$1"; name=$(basename "$d")
wt=$(mktemp -d /tmp/confirm_${name}_XXXX); rmdir "$wt"
git -C /repo worktree add -q --detach "$wt" HEAD || { echo "$name: worktree failed"; exit 2; }
res=""
if ! git -C "$wt" apply "$d/patch.diff" 2>/dev/null; then
  if ! git -C "$wt" apply -3 "$d/patch.diff" 2>/dev/null; then res="PATCH-DOES-NOT-APPLY"; fi
fi
if [ -z "$res" ]; then
  out=$(mktemp /tmp/junit_XXXX.xml)
  ( cd "$wt" && PYTHONPATH="$wt/src" /venv/bin/python -m pytest -q -p no:cacheprovider --timeout=900 --junitxml="$out" >/dev/null 2>&1 )
  tests=$(/venv/bin/python - "$out" <<'PY'
import json, sys, xml.etree.ElementTree as ET
base = set(json.load(open('/root/.vp/BASELINE.json'))['stable_pass'])
ok = set()
for tc in ET.parse(sys.argv[1]).getroot().iter('testcase'):
    if not any(ch.tag in ('failure', 'error', 'skipped') for ch in tc):
        ok.add(tc.get('classname') + '::' + tc.get('name'))
print(f"{len(base & ok)}/{len(base)}")
PY
)
  rm -f "$out"
  ( cd /tmp && timeout 900 /venv/bin/python "$d/demo.py" "$wt" >/tmp/confirm_${name}_mod.log 2>&1 ); rc_mod=$?
  git -C "$wt" checkout -q -- . 
  ( cd /tmp && timeout 900 /venv/bin/python "$d/demo.py" "$wt" >/tmp/confirm_${name}_orig.log 2>&1 ); rc_orig=$?
  res="tests=$tests demo_mod=$rc_mod demo_orig=$rc_orig"
fi
git -C /repo worktree remove --force "$wt"
echo "$name: $res"
