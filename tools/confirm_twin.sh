#!/bin/bash
# confirm_twin.sh <seeded/twin*-CXX-k> : confirm a behaviour-preserving change in a scratch worktree of
# /repo HEAD: 1. patch applies; 2. the pinned suite still passes (510/510); 3. every demonstration kept for
# the seeded changes of the same property (seeded/CXX?/demo.py) exits 0 on it (the property holds).
# Prints one summary line; removes the worktree.
d=$(realpath "$1"); name=$(basename "$d"); prop=$(echo "$name" | sed -E 's/^twin[0-9]*-(C[0-9]+)-.*/\1/')
wt=$(mktemp -d /tmp/confirm_${name}_XXXX); rmdir "$wt"
git -C /repo worktree add -q --detach "$wt" HEAD || { echo "$name: worktree failed"; exit 2; }
res=""
if ! git -C "$wt" apply "$d/patch.diff" 2>/dev/null; then res="PATCH-DOES-NOT-APPLY"; fi
if [ -z "$res" ]; then
  out=$(mktemp /tmp/junit_XXXX.xml)
  ( cd "$wt" && PYTHONPATH="$wt/src" /venv/bin/python -m pytest -q -p no:cacheprovider --timeout=900 --junitxml="$out" >/dev/null 2>&1 )
  tests=$(/venv/bin/python - "$out" <<'PY'
import json, sys, xml.etree.ElementTree as ET
base = set(json.load(open('/root/.vp/BASELINE.json'))['stable_pass'])
ok = set()
for tc in ET.parse(sys.argv[1]).getroot().iter('testcase'):
    if not any(ch.tag in ('failure', 'error', 'skipped') for ch in tc):
        ok.add(tc.get('classname') + '::' + tc.get('name'))
print(f"{len(base & ok)}/{len(base)}")
PY
)
  rm -f "$out"
  demos=""
  for s in /verif/seeded/${prop}[a-z]; do
    [ -f "$s/demo.py" ] || continue
    ( cd /tmp && timeout 900 /venv/bin/python "$s/demo.py" "$wt" >/dev/null 2>&1 ); demos="$demos$(basename $s)=$? "
  done
  res="tests=$tests demos: $demos"
fi
git -C /repo worktree remove --force "$wt"
echo "$name: $res"
