#!/venv/bin/python
"""Regenerate /verif/MANIFEST.json from the table below (single source of truth for the
interface).  A property is listed under `checks` only if aurelsa/props/<id>.py exists; all
others are listed under not_applicable with the reason given here."""
import json
import os
import sys

HERE = os.path.dirname(os.path.dirname(os.path.abspath(__file__)))

T = {
 "C01": dict(
    technique="static analysis: effect/purity summaries (incl. no one-shot iterator stored in the instance), presence-guard table with closure and cycle rules (alternative derivations: both branches interpreted and compared with the defining formula of their configuration, or proved equal by definitional expansion), alias analysis of cached values, protocol order in __getitem__ (ast + dataflow + abstract interpretation)",
    category="other", design="DESIGN.md section 9.2 and section 4 C01, section 3 E1/E2",
    text="Structural theorem: a value is a function of (inputs, options) alone if quantity methods are pure, cached values are never modified, and every `'k' in self.data` guard is history-insensitive. The check establishes these three premises on all methods and all guard sites of the current source.",
    note="Assumes the two formulas of an alternative-derivation guard agree (3+1 identities, frozen table); discretisation error not decided; F5 (rho/rho0/eps cycle) is a listed known finding."),
 "C02": dict(
    technique="static analysis: interprocedural alias/ownership dataflow with mutation sinks; values returned by memoised functions are shared storage (ast)",
    category="other", design="DESIGN.md section 9.2 and section 4 C02, section 3 E2",
    text="Ownership discipline over core.py, time.py, reading.py, maths.py, finitedifference.py, numerical.py: no in-place sink (augmented assignment, subscript store, mutating method, out=) is reachable from a value that may share storage with a cached value, an fd attribute, or a caller-owned argument.",
    note="numpy/scipy/h5py internals trusted not to mutate arguments passed without out=."),
 "C03": dict(
    technique="static analysis: typestate/pairing rules on the cache protocol (who-may-delete, paired deletion, strain factor, must-freeze event simulation, termination ranking) and alias/ownership analysis restricted to cached values (ast + dataflow)",
    category="other", design="DESIGN.md section 9.2 and section 4 C03",
    text="Every deletion site, the removal predicates, the freeze points and the loops of cleanup_cache are enumerated and decided structurally on all paths; no in-place sink is reachable from a cached (hence possibly frozen) value.",
    note="Domain: clear_cache_every_nbr_calc >= 1, memory_threshold_inGB > 0; users do not delete from rel.data by hand."),
 "C04": dict(
    technique="static analysis: abstract interpretation of the tensor code (ast) into exact componentwise polynomials over opaque field atoms with per-slot index variance; einsum index-discipline rules; equality with reference index formulas evaluated in the same domain, per reachable configuration (vacuum flag, presence guards); unrolled symmetry/completeness table of populate_4Riemann",
    category="other", design="DESIGN.md section 9.2 and section 4 C04, section 3 E3/E4",
    text="Necessary conditions of C04 decided for every input at once: index discipline (variance, dimension, slot order) of all contractions; the written form of gdown4/gdet/gtt, the six 3+1 Christoffel blocks, Gauss/Codazzi/Mainardi pieces and contractions equals validated reference term lists in canonical form; populate_4Riemann table is conflict-free, symmetric and complete; vacuum branches differ only by matter terms.",
    note="Convergence at the scheme's order is not decided; reference term lists were validated once against finite-differenced 4D definitions (findings/validate_core.py)."),
 "C05": dict(
    technique="static analysis: abstract interpretation of the tensor code (ast) into exact componentwise polynomials over opaque field atoms with per-slot index variance; einsum index-discipline rules; equality with reference index formulas evaluated in the same domain, per reachable configuration (vacuum flag, presence guards); the derivative helpers are interpreted on generic tensors for every supported index pattern; axis/spacing term equalities of d3x/d3y/d3z and the tensor derivative maps on the partially evaluated finite-difference module",
    category="other", design="DESIGN.md section 9.2 and section 4 C05",
    text="Every supported index pattern of s_covd/st_covd/s_div/s_curl/Lie_beta is interpreted on a generic tensor and equals the operator's definition component by component (sign and slot position of every Christoffel / shift-derivative correction, density weight); the hand-written 27-entry Christoffel table and the Riemann/Ricci definitions (direct and BSSNOK split) equal their reference formulas.",
    note="Convergence not decided."),
 "C06": dict(
    technique="static analysis: abstract interpretation of the tensor code (ast) into exact componentwise polynomials over opaque field atoms with per-slot index variance; einsum index-discipline rules; equality with reference index formulas evaluated in the same domain, per reachable configuration (vacuum flag, presence guards)",
    category="other", design="DESIGN.md section 9.2 and section 4 C06",
    text="The written form of Hamiltonian, Momentum, dtKtrace, dtphi, dtgammaup3, dtgammadown3_bssnok, dtAdown3_bssnok, dts_Gamma_bssnok equals the cited textbook equations term by term (sign, coefficient, index pattern), for every input at once.",
    note="Convergence to the true time derivative not decided; helper correctness is C05."),
 "C07": dict(
    technique="static analysis: exact rational stencil extraction + moment conditions (proof obligations); partial evaluation of the module (tables, closures, namedtuples, generators, dispatch loops executed; field, grid size N and parameters kept as terms: slice/concatenate/pad/transpose/list terms, affine forms, linear stencil forms), constructor evaluated per order, d3 per boundary mode, affine segment arithmetic of the boundary splices, permutation/axis and tensor-map term equalities (ast, fractions)",
    category="proof", design="DESIGN.md section 9.2 and section 4 C07",
    text="Proof for all grid sizes, orders, boundary modes, axes and ranks: the 72 moment conditions pin the 12 stencils to the unique standard weights (exact on polynomials of degree <= p); the splices tile [0,N) once with in-range subscripts for N >= 3p/2, periodic/symmetric extensions map index j to (j-m) mod N / the mirror image; y,z operators are the x operator under axis exchange; tensor maps act componentwise in index order.",
    note="Floating-point round-off of the weights and of the sums is not part of the claim; numpy slicing/concatenate/transpose/pad semantics are modelled, not executed."),
 "C08": dict(
    technique="static analysis: polynomial normal forms (determinant/adjugate identities as proof obligations), guard-dominance of every division, unrolled symmetry table of populate_4Riemann, abstract interpretation of every raise/lower/trace key against its definition, tensor-vs-components bypass rule over the dependency graph (ast, exact arithmetic)",
    category="proof", design="DESIGN.md section 9.2 and section 4 C08",
    text="Proof of the algebraic identities for all inputs: det3/det4 equal the Leibniz expansion, inverse*metric = det*identity entrywise (25 polynomial identities), safe_division divides only under a zero test of the same divisor and returns literal zeros otherwise, populate_4Riemann has the Riemann symmetries, raise/lower keys contract the right metric with the right slot, trace-free and conformal-weight literals are consistent; a quantity offered both as a tensor and as components gives one value however it was supplied.",
    note="Round-off for badly scaled metrics is not decided."),
 "C09": dict(
    technique="static analysis: abstract interpretation of the tensor code (ast) into exact componentwise polynomials over opaque field atoms with per-slot index variance; einsum index-discipline rules; equality with reference index formulas evaluated in the same domain, per reachable configuration (vacuum flag, presence guards)",
    category="other", design="DESIGN.md section 9.2 and section 4 C09",
    text="The written form of uup/udown, h (three index positions), Tdown4/Tup4/Ttrace, rho_n, flux, stress, pressures, conserved densities equals the textbook definitions term by term with correct index placement.",
    note="The closed forms E = rho h W^2 - p etc. are consequences, not separately decided."),
 "C10": dict(
    technique="static analysis: abstract interpretation of the tensor code (ast) into exact componentwise polynomials over opaque field atoms with per-slot index variance; einsum index-discipline rules; equality with reference index formulas evaluated in the same domain, per reachable configuration (vacuum flag, presence guards); Riemann-symmetry analysis on the component polynomials, Newman-Penrose contraction table by role on a generic tetrad, Gram-Schmidt rule decided on the interpreted tetrad (inner products and norms as fresh symbols: every projection coefficient multiplies -g(e,e) e of an already normalised leg, every earlier leg is projected out), invariant polynomials, alias analysis",
    category="other", design="DESIGN.md section 9.2 and section 4 C10",
    text="Both Weyl constructions are typed; the Riemann-based formula is antisymmetric in each pair, pair-symmetric and trace-free on index patterns; E/B formulas match reference term lists; Weyl scalars are the NP contractions by role; tetrad Gram-Schmidt steps have the signs required by the metric signature; invariants are the stated polynomials.",
    note="Convergence, numerical orthonormality and tetrad-independence are not decided."),
 "C11": dict(
    technique="static analysis: ordering provenance in join_chunks, chunk-coverage rule (chunk count = maximum over all keys), geometry-per-dataset rule (ghost widths / origin not remembered across iterations), iteration-coverage rule (the key lookup loop runs over the whole request and refuses a missing iteration), storage-order convention table over both readers, restart-selection flow (role-based: latest-first scan that stops at the first hit), name-map table agreement, definite assignment (ast + CFG + def-use)",
    category="other", design="DESIGN.md section 9.2 and section 4 C11",
    text="Structural clauses: every multi-chunk concatenation is ordered by a sort of the origin component paired with its axis; ghost trimming pairs axis i with nghostzones[2-i]; latest-restart selection; name maps mutually consistent; no use of a possibly-unassigned or stale loop variable.",
    note="Equality of returned data with file contents is not decided; ghost width >= 1 assumed."),
 "C12": dict(
    technique="static analysis: row-index provenance (def-use closure) in cache writer and filler, writer/reader template agreement, dataset-read-key rule (the dataset read is named by the writer's template, never picked by a substring test), separator-guard rule (the '/' between path and file name depends on the path's text only), empty-selection rule (vars=[] means everything on both sides), one-entry-per-iteration column rule, dataset write discipline (ast + def-use)",
    category="other", design="DESIGN.md section 9.2 and section 4 C12",
    text="The index used to pick a row when filing into or filling from the cache is data-dependent on the iteration column of the dictionary it indexes; path/file/dataset-key templates of writer and reader agree.",
    note="Value equality across arbitrary call histories not decided."),
 "C13": dict(
    technique="static analysis on the canonical form: row-index provenance (def-use), canonical string templates with role-named holes (writer vs reader), dataset-read-key rule, path-condition guard/use agreement, separator-guard and empty-selection rules, one-entry-per-iteration column rule, dataset write discipline, alias analysis of the arguments (ast + dataflow)",
    category="other", design="DESIGN.md section 9.2 and section 4 C13",
    text="Structural clauses of the save/read round trip decided on all paths.",
    note="HDF5 fidelity (h5py) trusted."),
 "C14": dict(
    technique="static analysis: per-step isolation (fresh instance dominance, no escape), must-freeze-before-read event simulation, install-before-request order, row coverage and row-permutation rules, estimator table decided by evaluating it (module-level display, ** merges, comprehensions, lambdas with late binding) on a symbolic array, alias analysis of the arguments (ast + dataflow)",
    category="other", design="DESIGN.md section 9.2 and section 4 C14",
    text="Structural clauses: each step computes on an instance created in that invocation whose inputs are frozen and whose custom variables are all installed before anything is requested from it; every input row is processed; rows are permuted whole; each estimate column applies the estimator bound to its name to the column named in its key; already-present requests are skipped, input columns are not written.",
    note="Equality with a fresh computation is a consequence of C01-C03 + isolation, not separately decided."),
 "C15": dict(
    technique="static analysis: abstract interpretation of AurelCoreSymbolic (loops, done-tables, skips and mirrored fills unrolled exactly) on a generic non-diagonal metric of dimension 2, 3, 4 for both simplify values and both outcomes of every cache guard; componentwise equality with the textbook formulas; fill-symmetry and flag-independence rules; alias analysis of cached values (ast, exact arithmetic)",
    category="other", design="DESIGN.md section 9.2 and section 4 C15",
    text="Each of the ten symbolic quantities equals its textbook definition component by component for a generic metric, independently of the simplify flag and of which intermediates are cached; every skipped component is zero by a symmetry, mirrored fills are exactly the tensor's symmetries; no method writes into a cached object.",
    note="Derivatives are opaque atoms (d_k of a component): agreement is of the written formula with the definition, not of a CAS evaluation for a particular metric; sympy's own simplify/diff are trusted."),
 "C16": dict(
    technique="static analysis: partial evaluation of the constructor and of the helpers of finitedifference.py (values of the attributes as terms over the parameter table): exact polynomial form of the coordinate arrays, extent/size provenance, meshgrid convention, axis-sibling isomorphism of the attribute values, trimming helpers evaluated per rank, trim width = reach of the installed centred stencil per constructed order, both directions of the Cartesian<->spherical map as closed forms over function atoms; arange count-determinism lint, axis-letter/index pairing (ast, exact arithmetic)",
    category="other", design="DESIGN.md section 9.2 and section 4 C16",
    text="Count/shape/extent clauses decided for all parameters: N points per axis at min+i*d, extents are the last grid point, sizes derive from the arrays, axis letters pair with indices consistently, trims are symmetric multiples of mask_len.",
    note="The written Cartesian->spherical formulas are decided (r, arccos(z/r), sign(y) arccos(x/rho)); the numerical round trip to rounding is not."),
 "C17": dict(
    technique="static analysis: numeric/symbolic sibling-branch agreement by polynomial normalisation over function atoms; component/axis pairing on the evaluated 3x3 matrices; static-metric <=> zero-K dependence rule; K = -(1/2 alpha) d_t gamma by syntactic differentiation of the expression trees (chain/product/power rules, exact normal forms, two declared facts); scaling-weight (dimensional homogeneity) type system over the closed forms with coordinate weights inferred from the module's own metric; pointwise rule (coordinate-shaped arrays never rebound, subscripted or permuted) (ast, exact arithmetic)",
    category="other", design="DESIGN.md section 9.2 and section 4 C17",
    text="Decided on the expression trees: the numerical and symbolic forms of every bundled solution agree; K_ij is -(1/(2 alpha)) d_t of the module's own gamma_ij (zero shift) for 7 of 9 modules; entry (a, b) of the perturbed-FLRW tensors is built from axes a and b; in the five typable modules every closed form (K, T, rho, p, Ricci and Kretschmann scalars, null expansions) is homogeneous of the scaling weight its role requires.",
    note="Einstein's equations for the matter content and the published closed-form scalars are NOT decided (second derivatives, inverse metrics and simplification of transcendental expressions: computer algebra, not static analysis); the scaling rule is a necessary condition of those clauses only; declared facts: LCDM da/dt = a H, Szekeres dZ/dt = dtZ; 2 modules' K and the modules with dimensionful numerical constants are listed unverified / not typable."),
 "C18": dict(
    technique="static analysis: token-collision analysis of parser guards vs writer templates with hole alphabets, protocol-order rule, writer/parser round trip of iterations.txt by abstract interpretation of the parser on the writer's line templates, level-representative provenance and level-coverage (every level 0..rlmax is merged), regex group-structure agreement, glob-anchor rule (a number read from a globbed path is located by the full literal prefix of the pattern), separator rule, module-state write rule, alias analysis of the merged overview, definite assignment / stale values across restarts, per-restart accumulators re-bound inside the restart loop (ast, re._parser, dataflow)",
    category="other", design="DESIGN.md section 9.2 and section 4 C18",
    text="Format-level clauses decided for all names: no parser guard token can occur in a free hole of another line's template; the restart header is written first; regex groups used exist, are digits where converted and are tested when optional; every catalogue line parses back, key by key and field by field, to what was stored in memory next to it; the component representing a refinement level is chosen among that level's datasets; the key separator is outside the name alphabet; no scan result is cached in module state; per-restart entries are not updated through the merged overview; no stale value crosses restarts.",
    note="That a scan reports what is on disk is not decided. The round trip of iterations.txt is decided for the seven line templates (lists instantiated with 0/2 generic elements, holes assumed free of the separators, which the token-collision rule establishes)."),
 "C19": dict(
    technique="static analysis: abstract interpretation of the tensor code (ast) into exact componentwise polynomials over opaque field atoms with per-slot index variance; einsum index-discipline rules; equality with reference index formulas evaluated in the same domain, per reachable configuration (vacuum flag, presence guards); includes the assembly of gdown4/gup4 from lapse, shift and 3-metric",
    category="other", design="DESIGN.md section 9.2 and section 4 C19",
    text="Necessary conditions: index discipline and written form of st_covd_udown4 (time derivative of u_mu), acceleration, projection, expansion, shear, vorticity.",
    note="The identities themselves (theta = -K, ...) and their convergence are not decided."),
 "C20": dict(
    technique="static analysis: must-pass-through bounds refusal, element-order rule of the flatten/reshape pair of interpolate, analysis/synthesis agreement and angle roles decided on symbolic values (exact normal forms of the expressions), module-state and loop-carried-state rules, sphere-centre rule on the partially evaluated Psi4_lm (sampled points = centre + R n in grid coordinates), integer-overflow domain of the normalisation (ast, exact arithmetic)",
    category="other", design="DESIGN.md section 9.2 and section 4 C20",
    text="sYlm equals the Goldberg closed form as an exact polynomial in cos(theta/2), sin(theta/2), exp(i phi) for 115 (s, l, m) cases and is regular at the poles; extrapolating interpolator is only reachable through the bounds refusal; decomposition and reconstruction iterate the same (l,m) and call sYlm identically (conjugated in analysis); inclination/azimuth values flow only into parameters of their role; per-radius values do not carry over between radii.",
    note="sYlm is compared with the Goldberg closed form for |s| <= 2, l <= 4 (integers concrete, angles symbolic); larger l, the numerical quadrature error of the decomposition, interpolation exactness and convergence of the mode amplitudes are NOT decided."),
}

ENGINES = [
 dict(name="aurelsa.common", path="aurelsa/common.py", serves_properties=sorted(T),
      kind_free_text="source loader, rule bookkeeping, evidence, known findings, exit codes"),
 dict(name="aurelsa.exact", path="aurelsa/exact.py", serves_properties=["C07", "C08", "C10", "C16", "C17"],
      kind_free_text="exact abstract domains: rationals, affine forms, polynomials over atoms"),
 dict(name="aurelsa.selftest", path="aurelsa/selftest.py", serves_properties=sorted(T),
      kind_free_text="thorough tier: mutation self-test of each analyser on scratch copies"),
]


_SD = os.path.join(HERE, "seeded")
N_SEEDS = len([d for d in os.listdir(_SD) if not d.startswith("twin")
               and os.path.exists(os.path.join(_SD, d, "patch.diff"))])
N_TWINS = len([d for d in os.listdir(_SD) if d.startswith("twin")
               and os.path.exists(os.path.join(_SD, d, "patch.diff"))])


def main():
    checks, na = [], []
    for pid in sorted(T):
        t = T[pid]
        if os.path.exists(os.path.join(HERE, "aurelsa", "props", pid.lower() + ".py")):
            checks.append({
                "property_id": pid,
                "quick_cmd": f"./check {pid} --tier quick",
                "thorough_cmd": f"./check {pid} --tier thorough",
                "evidence_file": f"/verif/evidence/{pid}.json",
                "replay_cmd_template": f"./check {pid} --replay {{path}}",
                "engine": "aurelsa",
                "level_claimed": {"category": t["category"], "text": t["text"],
                                  "design_ref": t["design"]},
                "level_note": t["note"],
                "technique": t["technique"],
            })
        else:
            na.append({"property_id": pid,
                       "reason": "check not built yet (work in progress); planned: "
                                 + t["technique"]})
    engines = [e for e in ENGINES if os.path.exists(os.path.join(HERE, e["path"]))]
    for extra in ("tensor", "alias", "cfg", "refs", "canon", "fdinterp", "fdpe", "symexpr", "boolnorm",
                  "symdiff", "reading_rules", "defassign", "roundtrip"):
        p = f"aurelsa/{extra}.py"
        if os.path.exists(os.path.join(HERE, p)):
            engines.append(dict(name=f"aurelsa.{extra}", path=p, serves_properties=[],
                                kind_free_text={"tensor": "tensor index types + canonical tensor polynomials",
                                                "alias": "alias/ownership/mutation dataflow",
                                                "cfg": "statement-level control-flow graph, dominators, definite assignment",
                                                "refs": "reference term tables (validated)",
                                                "canon": "canonical form of loaded modules (behaviour-preserving rewrites)",
                                                "fdinterp": "term language and affine segment arithmetic of the finite-difference array plumbing",
                                                "fdpe": "partial evaluator of finitedifference.py / time.py / Psi4_lm (tables, closures, generators executed; field, grid size, parameters symbolic)",
                                                "roundtrip": "abstract interpretation of the catalogue parser on the writer's line templates",
                                                "symexpr": "scalar expressions to exact polynomials over function atoms",
                                                "boolnorm": "quantifier normal form of membership predicates",
                                                "symdiff": "syntactic differentiation, function atoms",
                                                "reading_rules": "provenance / template / ordering rules for reading.py",
                                                "defassign": "must-assigned and stale-value dataflow"}[extra]))
    m = {
        "version": 1,
        "setup_cmd": "/venv/bin/python -c \"import ast, fractions, yaml; print('aurelsa: pure-python static analysers, nothing to build')\"",
        "hooks": {"guard": "AUREL_VERIF",
                  "enable": "none: the analysers only parse /repo/src/aurel (override with AUREL_REPO); no hook or instrumentation was added to aurel, the guard guards nothing",
                  "baseline_off_cmd": "/verif/tools/run_baseline.sh",
                  "source_commits": [], "add_only": True},
        "engines": engines,
        "checks": checks,
        "notes": ("Technique family: static analysis only (ast, hand-built CFG, dataflow, exact abstract domains); "
                  "no check imports or runs aurel. Exit 0 = held (KNOWN-FINDING lines for listed findings), "
                  "1 = VIOLATION, 2 = ANALYSIS-ERROR. Genuine defects of the pinned tree were repaired by 'fix:' "
                  "commits in /repo (known_findings.json 'fixed'); seeded/ holds " + str(N_SEEDS) + " confirmed breaking changes (each reported by the check of its property) and " + str(N_TWINS) + " behaviour-preserving twins (every check silent), replayed by the thorough tier."),
        "not_applicable": na,
    }
    with open(os.path.join(HERE, "MANIFEST.json"), "w") as f:
        json.dump(m, f, indent=1)
    print(f"MANIFEST: {len(checks)} checks, {len(na)} not yet claimed")


if __name__ == "__main__":
    sys.exit(main())
