"""Write the prompts for one round of independent mutation agents.
usage: gen_mut_prompts.py <round letter> <previous round letters>
Each agent gets only the property text, its scratch worktree /tmp/mut/<id><round> and one-paragraph
descriptions of earlier seeded changes for the same property (to force a different mechanism)."""
import json
import sys

rnd, prev_rounds = sys.argv[1], sys.argv[2]
props = [json.loads(l) for l in open('/verif/properties.jsonl')]
for p in props:
    pid = p['id']
    wt = f'/tmp/mut/{pid}{rnd}'
    out = f'/tmp/mut/{pid}{rnd}.out'
    prev = []
    for r in prev_rounds:
        try:
            prev.append(json.load(open(f'/verif/seeded/{pid}{r}/meta.json')).get('summary') or '')
        except OSError:
            pass
    prevtxt = "\n".join(f"  PREVIOUS {i + 1}: {t}" for i, t in enumerate(prev))
    text = f"""You are helping test a verification effort by playing the role of a developer who introduces a subtle regression.

The project is `aurel`, a Python numerical-relativity analysis library (lazy, cached tensor calculus on 3D grids with finite-difference derivatives, analytic spacetimes, Einstein Toolkit HDF5 reading). You have your own scratch git worktree of it at `{wt}` (source in `{wt}/src/aurel`, tests in `{wt}/tests`). Work ONLY inside `{wt}` and `{out}`; do not touch /repo, /verif or any other directory, and do not read anything under /verif. IMPORTANT: never use `git stash` (the stash is shared between worktrees and other people are working in sibling worktrees); to compare with the unmodified code use `git -C {wt} diff > {out}/p.diff; git -C {wt} apply -R {out}/p.diff; ...; git -C {wt} apply {out}/p.diff`, or a `git -C {wt} archive HEAD | tar -x -C <tmpdir>` copy.

Here is a semantic property the library is supposed to satisfy:

ID: {pid}
Title: {p['title']}
Statement: {p['statement']}
Quantifier: {p['quantifier']['text']}
Why the existing tests cannot settle it: {p['why_tests_cant']}
Relevant files: {', '.join(p['anchors']['files'])}
Mechanisms: {json.dumps(p['anchors']['mechanism'])}

Your task: make ONE small, realistic change to the library source under `{wt}/src/aurel` (the kind of slip or well-meant "optimisation"/refactor a developer could plausibly commit) that BREAKS this property, while
  (a) the package still imports and the existing test suite still passes exactly as before. Run it with:
      cd {wt} && PYTHONPATH={wt}/src /venv/bin/python -m pytest -q -p no:cacheprovider --timeout=900 -q 2>&1 | tail -5
      (On the unmodified tree, 510 tests pass and exactly 2 fail: tests/test_reading.py::TestETDataReading::test_read_ET_data_with_checkpoints and ::test_read_ET_checkpoints_across_restarts. Those two failures are pre-existing: the requirement is that the same 510 pass and no new failure appears.) Make sure the tests import your worktree's code, not the installed copy: set PYTHONPATH={wt}/src and verify with `PYTHONPATH={wt}/src /venv/bin/python -c "import aurel; print(aurel.__file__)"`.
  (b) the breakage needs something SPECIFIC to manifest - an unusual but legitimate input (e.g. non-zero shift, non-diagonal metric, a particular grid size or parameter value, a subset of iterations), a particular sequence of requests / cache state / cache setting, a multi-step sequence of operations, or two cooperating sites that each look fine alone - NOT something ordinary use or the existing tests would expose at once.
  (c) it is a genuine behavioural violation of the property as stated (not a crash on import, not a docstring change, not merely a performance change).

Previous volunteers already produced the following changes for this property; yours must be of a DIFFERENT kind, at a different site/mechanism (a different clause of the property statement, a different function, or a different file among the relevant ones - read ALL the relevant files and the functions they call before choosing). Prefer a change that looks like a behaviour-preserving refactor at first sight: a helper extracted or inlined, a loop restructured, a computation moved earlier/later, a condition rewritten into an "equivalent" form, a variable reused, a default changed, a copy dropped or added, an argument passed by keyword to the wrong parameter, an index or axis permuted where symmetric test data hides it:
{prevtxt}

Do not just revert an existing line to an obviously older form. Keep the diff small (typically 1-10 changed lines). Do not modify tests.

Then write a demonstration: a small standalone Python program `{out}/demo.py` that takes the source tree root as its first argument (it must do `sys.path.insert(0, sys.argv[1] + '/src')` before importing aurel), exercises the library, checks the property on the specific input/sequence, and exits 0 if the property holds and exits 1 (printing what went wrong) if it is violated. It must exit 1 on your modified worktree and exit 0 on the unmodified code. The demo should use an independent oracle (an analytic expectation, a fresh-instance recomputation, a direct numpy computation) rather than comparing against saved outputs. Keep its run time under ~2 minutes.

Deliverables (all three required), written into `{out}/`:
  1. `patch.diff` - output of `git -C {wt} diff` (the source change only).
  2. `demo.py` - as described.
  3. `meta.json` - JSON with keys: "property" ("{pid}"), "summary" (one paragraph: what was changed and why it breaks the property), "needs_to_manifest" (what specific input / sequence / configuration is required), "files_changed" (list), "tests_result" (the final pytest summary line you observed with the change applied), "demo_result_modified" and "demo_result_original" (exit codes you observed).

Leave the worktree with your change applied when you finish. In your final answer, give a 5-line summary of the change and the observed results. Use /venv/bin/python for everything (numpy, scipy, sympy, h5py are installed there; there is no network)."""
    open(f'/tmp/mut/{pid}{rnd}.prompt', 'w').write(text)
print('ok')
