"""Write the prompts for a round of behaviour-preserving-refactor agents (twins): the checks
must stay silent on every one of their patches.
usage: gen_twin_prompts.py [<round letter> [medium <previous twin prefix>]]
  no argument: the first round (five small edits, worktree suffix t)
  `w medium twin3`: four medium-sized refactorings per property, of other kinds than the ones
  recorded in seeded/<previous twin prefix>-<id>-*/meta.json"""
import json
import os
import sys

RND = sys.argv[1] if len(sys.argv) > 1 else "t"
MEDIUM = len(sys.argv) > 2 and sys.argv[2] == "medium"
PREV = sys.argv[3] if len(sys.argv) > 3 else None

props = [json.loads(l) for l in open('/verif/properties.jsonl')]
for p in props:
    pid = p['id']
    wt = f'/tmp/mut/{pid}{RND}'
    out = f'/tmp/mut/{pid}{RND}.out'
    text = f"""You are helping test a static-analysis effort by playing the role of a developer who REFACTORS code without changing its behaviour.

The project is `aurel`, a Python numerical-relativity analysis library (lazy, cached tensor calculus on 3D grids with finite-difference derivatives, analytic spacetimes, Einstein Toolkit HDF5 reading). You have your own scratch git worktree of it at `{wt}` (source in `{wt}/src/aurel`, tests in `{wt}/tests`). Work ONLY inside `{wt}` and `{out}`; do not touch /repo, /verif or any other directory, and do not read anything under /verif. IMPORTANT: never use `git stash` (the stash is shared between worktrees and other people are working in sibling worktrees); use `git -C {wt} diff > file` and `git -C {wt} checkout -- .` to save and reset your work.

Here is a semantic property the library satisfies today:

ID: {pid}
Title: {p['title']}
Statement: {p['statement']}
Quantifier: {p['quantifier']['text']}
Relevant files: {', '.join(p['anchors']['files'])}
Mechanisms: {json.dumps(p['anchors']['mechanism'])}

Your task: produce FIVE independent, small, realistic refactorings (each 3-25 changed lines) of the code that implements this property (the functions named under Mechanisms and the helpers they call), each of which PRESERVES THE BEHAVIOUR EXACTLY for every input and every call sequence, so that the property still holds after each of them. These are the kinds of edits a maintainer makes during clean-up. Make the five of DIFFERENT kinds, for example:
  - rename local variables / loop variables / einsum index letters consistently;
  - split a long expression into named temporaries, or inline a temporary;
  - reorder independent statements, reorder commutative operands or terms of a sum;
  - rewrite `x**2` as `x*x`, `a/b*c` as `a*c/b` only where exactly equivalent in exact arithmetic, `-1*x` as `-x`, `np.array([...])` vs `np.stack([...])`;
  - turn a loop into a comprehension or back, an if/else into a conditional expression, de-nest a guard (keeping `continue`/`break` semantics exactly), merge or split `if` conditions equivalently;
  - extract a few lines into a private helper function (pure, no hidden state) or inline a helper;
  - replace an f-string by concatenation/format producing the identical string; `dict.keys()` iteration vs dict iteration; `len(x) == 0` vs `not x` for lists;
  - pass an argument by keyword instead of position (to the SAME parameter), use a local alias for `self.fd` or a module.
Do NOT change results in any way (no different rounding order for floating point where it would change results beyond the last bit is fine, but do not change which operations are performed on which data), do not change public signatures, defaults, printed output, file formats, or the order of side effects. Do not touch tests. Each refactoring must be semantics-preserving BY CONSTRUCTION - if you are not sure, choose a simpler one.

For each refactoring k = 1..5:
  1. start from the clean tree (`git -C {wt} checkout -- .`), make the edit;
  2. run the test suite: cd {wt} && PYTHONPATH={wt}/src /venv/bin/python -m pytest -q -p no:cacheprovider --timeout=900 -q 2>&1 | tail -5   (on the unmodified tree 510 tests pass and exactly 2 fail: tests/test_reading.py::TestETDataReading::test_read_ET_data_with_checkpoints and ::test_read_ET_checkpoints_across_restarts; the same must hold after your edit). Make sure `PYTHONPATH={wt}/src /venv/bin/python -c "import aurel; print(aurel.__file__)"` points into your worktree;
  3. additionally run a quick script of your own that exercises the edited function on NON-TRIVIAL input (non-zero shift, non-diagonal metric, several iterations, etc. as appropriate) on both the edited and the clean code (use `git -C {wt} archive HEAD | tar -x -C <tmpdir>` for a clean copy) and confirm identical output (np.array_equal or allclose with rtol 1e-13);
  4. save `git -C {wt} diff > {out}/twin<k>.diff`.
Finally write `{out}/meta.json`: a JSON list of 5 objects with keys "file" ("twin<k>.diff"), "kind" (which kind of refactoring), "functions" (edited functions), "why_equivalent" (one or two sentences), "tests_result" (pytest summary line), "equivalence_check" (what you compared and the result). Leave the worktree clean at the end (`git -C {wt} checkout -- .`).

In your final answer list the five refactorings in one line each. Use /venv/bin/python for everything (numpy, scipy, sympy, h5py are installed; there is no network)."""
    if MEDIUM:
        prev = []
        for k in range(1, 6):
            try:
                prev.append(json.load(open(f'/verif/seeded/{PREV}-{pid}-{k}/meta.json'))['summary'])
            except (OSError, KeyError):
                pass
        text = text.replace("produce FIVE independent, small, realistic refactorings (each 3-25 changed lines)",
                            "produce FOUR independent, MEDIUM-SIZED, realistic refactorings (each 15-60 changed lines)")
        text = text.replace("These are the kinds of edits a maintainer makes during clean-up. Make the five of DIFFERENT kinds, for example:",
                            "These are the kinds of restructuring a maintainer does when tidying a module: a dispatch table or dictionary instead of an if/elif chain (or the reverse), a helper / generator / small class extracted or several functions merged onto one parameterised helper, module-level constants or namedtuples / dataclasses introduced, a loop nest replaced by itertools / comprehensions / numpy calls that perform the same operations in the same order, a function split into stages, data passed through a small record instead of loose variables, early returns instead of nested ifs, a while loop instead of a for loop with break, functools.partial / operator helpers, string building reorganised. Earlier volunteers already did the following for this property; make yours of OTHER kinds and, where possible, at other sites:\n"
                            + "\n".join(f"  EARLIER {i + 1}: {t}" for i, t in enumerate(prev))
                            + "\nSmaller building blocks you may combine:")
        text = text.replace("For each refactoring k = 1..5:", "For each refactoring k = 1..4:")
        text = text.replace("a JSON list of 5 objects", "a JSON list of 4 objects")
        text = text.replace("list the five refactorings", "list the four refactorings")
    os.makedirs('/tmp/mut', exist_ok=True)
    open(f'/tmp/mut/{pid}{RND}.prompt', 'w').write(text)
print('ok')
