#!/venv/bin/python
"""Refresh the generated parts of DESIGN.md: the per-check rule counts of section 9.2 (from the
evidence files of the last clean run) and the seed table of section 9.5 (from
seeded/INDEX.json, breaking seeds only; the twins are summarised in one line)."""
import json
import os
import re
import subprocess

V = os.path.dirname(os.path.dirname(os.path.abspath(__file__)))
p = os.path.join(V, "DESIGN.md")
s = open(p).read()
counts = subprocess.run(["/venv/bin/python", os.path.join(V, "tools", "rule_counts.py")],
                        capture_output=True, text=True, check=True).stdout.strip()
s, n = re.subn(r"(?ms)^\* \*\*C01\*\* \(\d+\):.*?^\* \*\*C20\*\* \(\d+\):[^\n]*\n", counts + "\n", s)
assert n == 1, "section 9.2 list not found"
idx = json.load(open(os.path.join(V, "seeded", "INDEX.json")))
rows = ["| seed | breaks | reported by | rule(s) of the intended check |",
        "|------|--------|-------------|-------------------------------|"]
ntw = nsil = 0
for name in sorted(idx):
    e = idx[name]
    if name.startswith("twin"):
        ntw += 1
        nsil += not e["detected_by"] and not e["errors"]
        continue
    rules = []
    for q in e["breaks"]:
        rules += e["rules"].get(q, [])
    miss = [q for q in e["breaks"] if q not in e["detected_by"]]
    rep = ", ".join(e["detected_by"]) or "—"
    if miss:
        rep += " (NOT DETECTED: " + ", ".join(miss) + ")"
    rows.append(f"| {name} | {', '.join(e['breaks'])} | {rep} | "
                f"{', '.join(sorted(set(rules))) or '—'} |")
noisy = sorted(n_ for n_, e in idx.items() if n_.startswith("twin")
               and (e["detected_by"] or e["errors"]))
rows.append("")
rows.append(f"Twins: {ntw} patches, {nsil} silent under all 20 checks"
            + (f"; not recognised (ANALYSIS-ERROR, never a VIOLATION): "
               + ", ".join(f"{n_} ({'/'.join(idx[n_]['errors'])})" for n_ in noisy
                           if not idx[n_]["detected_by"]) if noisy else "") + ".")
bad = [n_ for n_ in noisy if idx[n_]["detected_by"]]
assert not bad, f"twins with a VIOLATION: {bad}"
table = "\n".join(rows) + "\n"
s, n = re.subn(r"(?ms)^\| seed \| breaks \| reported by \|.*?(?=^## Appendix A)", table + "\n", s)
assert n == 1, "section 9.5 table not found"
open(p, "w").write(s)
print("DESIGN.md refreshed:", len(rows) - 4, "seeds,", ntw, "twins")
