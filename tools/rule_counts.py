"""Print the per-check rule/instance summary of the evidence files as the markdown list used in
DESIGN.md section 9.2."""
import json
import os

V = os.path.dirname(os.path.dirname(os.path.abspath(__file__)))
for i in range(1, 21):
    pid = f"C{i:02d}"
    e = json.load(open(os.path.join(V, "evidence", pid + ".json")))
    r = e["coverage"]["rules"]
    tot = sum(x["instances"] for x in r.values())
    parts = []
    for k, x in r.items():
        t = f"{k} {x['instances']}"
        extra = []
        if x.get("unverified"):
            extra.append(f"{x['unverified']} unverified")
        if x.get("violated"):
            extra.append(f"{x['violated']} known")
        if extra:
            t += " (" + ", ".join(extra) + ")"
        parts.append(t)
    print(f"* **{pid}** ({tot}): " + "; ".join(parts) + ".")
