#!/bin/bash
# Run aurel's pinned test suite (hooks guard off: there are no hooks) and compare with BASELINE.json.
# Prints the number of baseline tests that pass and lists any baseline test that does not.
out=$(mktemp /tmp/aurel_junit.XXXXXX.xml)
( cd /repo && env -u AUREL_VERIF /venv/bin/python -m pytest -ra -q -p no:cacheprovider --timeout=900 \
    --continue-on-collection-errors --junitxml="$out" >/dev/null 2>&1 )
/venv/bin/python - "$out" <<'PY'
import json, sys, xml.etree.ElementTree as ET
base = set(json.load(open('/root/.vp/BASELINE.json'))['stable_pass'])
ok = set()
for tc in ET.parse(sys.argv[1]).getroot().iter('testcase'):
    name = tc.get('classname') + '::' + tc.get('name')
    if not any(ch.tag in ('failure', 'error', 'skipped') for ch in tc):
        ok.add(name)
missing = sorted(base - ok)
print(f"baseline tests passing: {len(base & ok)}/{len(base)}")
for m in missing:
    print("NOT PASSING:", m)
sys.exit(1 if missing else 0)
PY
rc=$?
rm -f "$out"
exit $rc
