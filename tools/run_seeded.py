#!/venv/bin/python
"""Run the registered checks against seeded changes, each applied to a scratch copy of /repo.

  tools/run_seeded.py [--props C04,C05] [--tier quick] [seeded-dir ...]

For every seeded/<id>/patch.diff (default: all) a scratch copy of /repo's working tree (src only)
is made under a tempfile directory outside /repo and /verif, the patch is applied with
`git apply`, every selected check is run with AUREL_REPO pointing at the copy (evidence
writing disabled), and the copy is removed.  Prints a table: which properties raised a
VIOLATION, which stayed silent, which broke (exit 2).  Exit 0 always (a reporting tool)."""
import argparse
import json
import os
import shutil
import subprocess
import sys
import tempfile
from concurrent.futures import ThreadPoolExecutor

VERIF = os.path.dirname(os.path.dirname(os.path.abspath(__file__)))


def implemented():
    d = os.path.join(VERIF, "aurelsa", "props")
    return sorted(f[:-3].upper() for f in os.listdir(d) if f.startswith("c") and
                  f.endswith(".py"))


def run_one(sd, props, tier):
    name = os.path.basename(sd.rstrip("/"))
    tmp = tempfile.mkdtemp(prefix="aurelsa_seed_")
    try:
        shutil.copytree("/repo/src", os.path.join(tmp, "src"))
        subprocess.run(["git", "init", "-q"], cwd=tmp, check=True)
        r = subprocess.run(["git", "apply", "--whitespace=nowarn",
                            os.path.join(sd, "patch.diff")], cwd=tmp, capture_output=True,
                           text=True)
        if r.returncode != 0:
            return name, {"_": "PATCH-DOES-NOT-APPLY: " + r.stderr.strip()[:120]}
        res = {}
        env = dict(os.environ, AUREL_REPO=tmp, AUREL_NO_EVIDENCE="1", PYTHONPATH=VERIF,
                   PYTHONDONTWRITEBYTECODE="1")
        for p in props:
            r = subprocess.run(["/venv/bin/python", "-m", "aurelsa", p, "--tier", tier],
                               cwd=VERIF, env=env, capture_output=True, text=True)
            lines = [ln for ln in r.stdout.splitlines() if ln.startswith(("FINDING",
                                                                          "ANALYSIS-ERROR"))]
            res[p] = (r.returncode, lines[:3])
        return name, res
    finally:
        shutil.rmtree(tmp, ignore_errors=True)


def main():
    ap = argparse.ArgumentParser()
    ap.add_argument("dirs", nargs="*")
    ap.add_argument("--props", default="")
    ap.add_argument("--tier", default="quick")
    ap.add_argument("-v", action="store_true")
    ap.add_argument("--write-index", action="store_true",
                    help="write seeded/INDEX.json (which check detects which seed); used by "
                         "the thorough tier as a regression corpus")
    a = ap.parse_args()
    props = [p for p in a.props.split(",") if p] or implemented()
    dirs = a.dirs or sorted(os.path.join(VERIF, "seeded", d)
                            for d in os.listdir(os.path.join(VERIF, "seeded")))
    dirs = [os.path.abspath(d) for d in dirs]
    dirs = [d for d in dirs if os.path.exists(os.path.join(d, "patch.diff"))]
    with ThreadPoolExecutor(max_workers=int(os.environ.get("AUREL_JOBS", "14"))) as ex:
        results = list(ex.map(lambda d: run_one(d, props, a.tier), dirs))
    index = {}
    for (name, res), d in zip(results, dirs):
        meta = {}
        try:
            meta = json.load(open(os.path.join(d, "meta.json")))
        except Exception:  # noqa: BLE001
            pass
        breaks = meta.get("breaks") if "breaks" in meta else (meta.get("property") or "?")
        if "_" in res:
            print(f"{name:14s} breaks={breaks} {res['_']}")
            continue
        viol = [p for p, (rc, _l) in res.items() if rc == 1]
        err = [p for p, (rc, _l) in res.items() if rc == 2]
        rules = {}
        for p, (rc, lines) in res.items():
            if rc == 1:
                rules[p] = sorted({ln.split("[")[1].split("]")[0] for ln in lines
                                   if ln.startswith("FINDING") and "[" in ln})
        index[name] = {"breaks": breaks if isinstance(breaks, list) else [breaks],
                       "detected_by": viol, "rules": rules, "errors": err}
        print(f"{name:14s} breaks={breaks}  VIOLATION:{','.join(viol) or '-'}"
              f"  ERROR:{','.join(err) or '-'}")
        if a.v:
            for p, (rc, lines) in res.items():
                for ln in lines:
                    print("      ", p, ln[:220])
    if a.write_index:
        if a.dirs:      # partial run: merge into the existing index
            try:
                old = json.load(open(os.path.join(VERIF, "seeded", "INDEX.json")))
            except Exception:  # noqa: BLE001
                old = {}
            old.update(index)
            index = old
        with open(os.path.join(VERIF, "seeded", "INDEX.json"), "w") as f:
            json.dump(index, f, indent=1, sort_keys=True)
        print("wrote seeded/INDEX.json")
    return 0


if __name__ == "__main__":
    sys.exit(main())
