"""Print seeded/INDEX.json as a markdown table: seeded change -> property it breaks ->
checks that report it (rule names of the intended check)."""
import json
import os

V = os.path.dirname(os.path.dirname(os.path.abspath(__file__)))
idx = json.load(open(os.path.join(V, "seeded", "INDEX.json")))
print("| seed | breaks | reported by | rule(s) of the intended check |")
print("|------|--------|-------------|-------------------------------|")
for name in sorted(idx):
    e = idx[name]
    rules = []
    for p in e["breaks"]:
        rules += e["rules"].get(p, [])
    miss = [p for p in e["breaks"] if p not in e["detected_by"]]
    rep = ", ".join(e["detected_by"]) or "—"
    if miss:
        rep += " (MISSED: " + ", ".join(miss) + ")"
    print(f"| {name} | {', '.join(e['breaks']) or '(none: twin)'} | {rep} | "
          f"{', '.join(sorted(set(rules))) or '—'} |")
